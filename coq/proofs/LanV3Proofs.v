(* C05 / C06: the V3 packet codec against the independent reference; tamper evidence; the handshake. *)
From MS Require Import lib.Base gen.GenLan crypto.MD5 crypto.SHA256 crypto.AES crypto.Modes model.Lan spec.RefLan
  proofs.FrameProofs proofs.HashProofs proofs.AESInv proofs.ModesInv proofs.LanV2Proofs.
From Coq Require Import ZifyBool ZifyN ZifyNat.
Ltac Zify.zify_post_hook ::= Z.div_mod_to_equations.
Local Open Scope N_scope.

Definition key32 (k : bytes) : Prop := length k = 32%nat.

Lemma aes_key_ok_32 k : key32 k -> aes_key_ok k = true.
Proof. unfold key32, aes_key_ok. intros ->. reflexivity. Qed.

(* the padding rule of the code equals the reference's *)
Lemma pad_rule n : (if Nat.eqb ((n + 2) mod 16) 0 then 0 else 16 - (n + 2) mod 16)%nat = v3_pad n.
Proof.
  unfold v3_pad. pose proof (Nat.mod_upper_bound (n + 2)%nat 16%nat ltac:(lia)).
  destruct (Nat.eqb ((n + 2) mod 16) 0) eqn:E.
  - apply Nat.eqb_eq in E. rewrite E. reflexivity.
  - apply Nat.eqb_neq in E. rewrite (Nat.mod_small (16 - (n + 2) mod 16)%nat 16%nat) by lia. reflexivity.
Qed.

Lemma v3_pad_lt n : (v3_pad n < 16)%nat.
Proof. unfold v3_pad. apply Nat.mod_upper_bound. lia. Qed.

Lemma v3_pad_aligned n : ((2 + n + v3_pad n) mod 16 = 0)%nat.
Proof.
  unfold v3_pad. pose proof (Nat.mod_upper_bound (n + 2)%nat 16%nat ltac:(lia)) as Hb.
  pose proof (Nat.div_mod (n + 2)%nat 16%nat ltac:(lia)) as Hd.
  destruct (Nat.eq_dec ((n + 2) mod 16) 0) as [E|E].
  - rewrite E. replace (16 - 0)%nat with 16%nat by lia. rewrite Nat.mod_same by lia.
    replace (2 + n + 0)%nat with (n + 2)%nat by lia. exact E.
  - rewrite (Nat.mod_small (16 - (n + 2) mod 16)) by lia.
    replace (2 + n + (16 - (n + 2) mod 16))%nat with (0 + ((n + 2) / 16 + 1) * 16)%nat by lia.
    rewrite Nat.mod_add by lia. reflexivity.
Qed.

(* pad << 4 | type, for pad < 16 and type < 16, is 16*pad + type *)
Lemma type_byte pad t : (pad < 16)%nat -> t < 16 ->
  N.lor (N.shiftl (N.of_nat pad) 4) t = N.of_nat pad * 16 + t.
Proof.
  intros Hp Ht.
  assert (H : forallb (fun p => forallb (fun t => implb ((p <? 16) && (t <? 16)) (N.lor (N.shiftl p 4) t =? p * 16 + t)) all_bytes) all_bytes = true)
    by (vm_compute; reflexivity).
  assert (Hp' : N.of_nat pad < 256) by lia. assert (Ht' : t < 256) by lia.
  rewrite forallb_forall in H. specialize (H (N.of_nat pad) (in_all_bytes _ Hp')).
  rewrite forallb_forall in H. specialize (H t (in_all_bytes _ Ht')).
  destruct ((N.of_nat pad <? 16) && (t <? 16)) eqn:E; [cbn [implb] in H; lia|lia].
Qed.

Lemma len2' (l : bytes) : length l = 2%nat -> exists a b, l = [a; b].
Proof. apply len2. Qed.

(* shape of a typed V3 packet: 6 header bytes, ciphertext, 32-byte tag *)
Section Shape.
  Variables (s0 s1 tb : N) (c tag : bytes).
  Hypothesis Htag : length tag = 32%nat.
  Let header := [131; 112; s0; s1; 32; tb].
  Let p := header ++ c ++ tag.

  Lemma shape_len : length p = (38 + length c)%nat.
  Proof. unfold p, header. rewrite !app_length, Htag. cbn [length]. lia. Qed.
  Lemma shape_header : firstn 6 p = header.
  Proof. reflexivity. Qed.
  Lemma shape_cipher_neg : slice_neg p 6 32 = c.
  Proof.
    unfold slice_neg, slice. change (Nat.eqb 32 0) with false. cbv iota. rewrite shape_len.
    change (skipn 6 p) with (c ++ tag). replace (38 + length c - 32 - 6)%nat with (length c + 0)%nat by lia.
    rewrite firstn_app_2. cbn [firstn]. apply app_nil_r.
  Qed.
  Lemma shape_cipher : firstn (length p - 38) (skipn 6 p) = c.
  Proof.
    rewrite shape_len. change (skipn 6 p) with (c ++ tag). replace (38 + length c - 38)%nat with (length c + 0)%nat by lia.
    rewrite firstn_app_2. cbn [firstn]. apply app_nil_r.
  Qed.
  Lemma shape_tag_neg : last_n p 32 = tag.
  Proof.
    unfold last_n. change (Nat.eqb 32 0) with false. cbv iota. rewrite shape_len.
    unfold p. rewrite app_assoc. replace (38 + length c - 32)%nat with (length (header ++ c)) by (rewrite app_length; cbn [length header]; lia).
    rewrite skipn_app, skipn_all, Nat.sub_diag. reflexivity.
  Qed.
  Lemma shape_tag : skipn (length p - 32) p = tag.
  Proof. pose proof shape_tag_neg as H. unfold last_n in H. exact H. Qed.
End Shape.

(* ---------- C05: requests ---------- *)
Theorem v3_request_interop key pid data rnd :
  key32 key -> pid < 65536 -> wfb data -> wfb rnd -> N.of_nat (length data) <= 65000 ->
  (v3_pad (length data) <= length rnd)%nat ->
  exists p, v3_encode_request (Some key) pid data rnd = Ok p /\ ref_v3_parse_request key p = Some (pid, data).
Proof.
  intros Hk Hpid Hd Hr Hl Hrl.
  set (pad := v3_pad (length data)).
  assert (Hpad16 : (pad < 16)%nat) by apply v3_pad_lt.
  unfold v3_encode_request. rewrite pad_rule. fold pad.
  set (plain := be_bytes 2 pid ++ data ++ firstn pad rnd).
  assert (Hfl : length (firstn pad rnd) = pad) by (apply firstn_length_le; exact Hrl).
  assert (Hpl : length plain = (2 + length data + pad)%nat).
  { unfold plain. rewrite !app_length, be_bytes_length, Hfl. lia. }
  assert (Hpw : wfb plain).
  { unfold plain. apply wfb_app; [apply wfb_be_bytes|]. apply wfb_app; [exact Hd|apply wfb_firstn, Hr]. }
  assert (Hal : (length plain mod 16 = 0)%nat) by (rewrite Hpl; apply v3_pad_aligned).
  destruct (cbc_dec_enc key plain Hpw Hal) as (c & Hc & Hlc & Hwc & Hdec).
  unfold v3_header. rewrite to_bytes_be_ok by (change (256 ^ N.of_nat 2) with 65536; lia).
  cbn [bind]. rewrite to_bytes_be_ok by (change (256 ^ N.of_nat 2) with 65536; exact Hpid).
  cbn [bind]. fold plain. unfold encrypt_aes_cbc. rewrite (aes_key_ok_32 key Hk), Hc. cbn [bind].
  eexists. split; [reflexivity|].
  assert (Hsb : exists s0 s1, be_bytes 2 (N.of_nat (length data + pad + 32)) = [s0; s1]) by (apply len2, be_bytes_length).
  destruct Hsb as (s0 & s1 & Hsb). rewrite Hsb.
  unfold PacketType_ENCRYPTED_REQUEST. rewrite (type_byte pad 6 Hpad16 ltac:(lia)).
  set (tb := N.of_nat pad * 16 + 6).
  change (([131; 112] ++ [s0; s1] ++ [32] ++ [tb]) ++ c ++ sha256 (([131; 112] ++ [s0; s1] ++ [32] ++ [tb]) ++ plain))
    with ([131; 112; s0; s1; 32; tb] ++ c ++ sha256 ([131; 112; s0; s1; 32; tb] ++ plain)).
  set (tag := sha256 ([131; 112; s0; s1; 32; tb] ++ plain)).
  assert (Htag : length tag = 32%nat) by apply sha256_length.
  unfold ref_v3_parse_request.
  rewrite (shape_len s0 s1 tb c tag Htag).
  destruct (38 + length c <? 40)%nat eqn:E40; [lia|].
  change (firstn 2 ([131; 112; s0; s1; 32; tb] ++ c ++ tag)) with [131; 112].
  change (firstn 2 (skipn 2 ([131; 112; s0; s1; 32; tb] ++ c ++ tag))) with [s0; s1].
  change (nthb ([131; 112; s0; s1; 32; tb] ++ c ++ tag) 4) with 32.
  change (nthb ([131; 112; s0; s1; 32; tb] ++ c ++ tag) 5) with tb.
  cbn [beqb]. rewrite !N.eqb_refl. cbn [andb negb].
  assert (Hsz : from_be [s0; s1] + 8 = N.of_nat (38 + length c)).
  { rewrite <- Hsb, from_be_be_bytes by (change (256 ^ N.of_nat 2) with 65536; lia). lia. }
  rewrite Hsz, N.eqb_refl. cbn [negb].
  assert (Htb1 : tb mod 16 = 6) by (unfold tb; lia).
  assert (Htb2 : N.to_nat (tb / 16) = pad) by (unfold tb; lia).
  rewrite Htb1, Htb2. cbn [N.eqb Pos.eqb negb].
  rewrite <- (shape_len s0 s1 tb c tag Htag), (shape_cipher s0 s1 tb c tag Htag), (shape_tag s0 s1 tb c tag Htag), Hdec.
  cbn [ok_or_none]. change (firstn 6 ([131; 112; s0; s1; 32; tb] ++ c ++ tag)) with [131; 112; s0; s1; 32; tb].
  fold tag. rewrite beqb_refl'. cbn [negb].
  rewrite Hpl. destruct (2 + length data + pad <? 2 + pad)%nat eqn:E2; [lia|].
  assert (Hpay : firstn (2 + length data + pad - 2 - pad) (skipn 2 plain) = data).
  { unfold plain. assert (Hbb : exists a b, be_bytes 2 pid = [a; b]) by (apply len2, be_bytes_length).
    destruct Hbb as (a & b & ->). cbn [app skipn].
    replace (2 + length data + pad - 2 - pad)%nat with (length data + 0)%nat by lia.
    rewrite firstn_app_2. cbn [firstn]. apply app_nil_r. }
  rewrite Hpay. fold pad. rewrite Nat.eqb_refl. cbn [negb].
  assert (Hctr : from_be (firstn 2 plain) = pid).
  { unfold plain. assert (Hbb : exists a b, be_bytes 2 pid = [a; b]) by (apply len2, be_bytes_length).
    destruct Hbb as (a & b & Hab). rewrite Hab. cbn [app firstn]. rewrite <- Hab.
    apply from_be_be_bytes. change (256 ^ N.of_nat 2) with 65536. exact Hpid. }
  rewrite Hctr. reflexivity.
Qed.

(* ---------- C05: responses ---------- *)
Theorem v3_response_interop key counter data rnd :
  key32 key -> counter < 65536 -> wfb data -> wfb rnd -> N.of_nat (length data) <= 65000 ->
  (v3_pad (length data) <= length rnd)%nat ->
  exists p, ref_v3_build_response key counter data rnd = Some p /\ v3_process_packet (Some key) p = Ok data.
Proof.
  intros Hk Hctr Hd Hr Hl Hrl.
  set (pad := v3_pad (length data)).
  assert (Hpad16 : (pad < 16)%nat) by apply v3_pad_lt.
  unfold ref_v3_build_response, ref_v3_build. fold pad.
  set (plain := be_bytes 2 counter ++ data ++ firstn pad rnd).
  assert (Hfl : length (firstn pad rnd) = pad) by (apply firstn_length_le; exact Hrl).
  assert (Hpl : length plain = (2 + length data + pad)%nat).
  { unfold plain. rewrite !app_length, be_bytes_length, Hfl. lia. }
  assert (Hpw : wfb plain).
  { unfold plain. apply wfb_app; [apply wfb_be_bytes|]. apply wfb_app; [exact Hd|apply wfb_firstn, Hr]. }
  assert (Hal : (length plain mod 16 = 0)%nat) by (rewrite Hpl; apply v3_pad_aligned).
  destruct (cbc_dec_enc key plain Hpw Hal) as (c & Hc & Hlc & Hwc & Hdec).
  rewrite Hc. cbn [ok_or_none]. eexists. split; [reflexivity|].
  assert (Hsb : exists s0 s1, be_bytes 2 (N.of_nat (length data + pad + 32)) = [s0; s1]) by (apply len2, be_bytes_length).
  destruct Hsb as (s0 & s1 & Hsb). rewrite Hsb.
  set (tb := N.of_nat pad * 16 + 3).
  change (([131; 112] ++ [s0; s1] ++ [32; tb]) ++ c ++ sha256 (([131; 112] ++ [s0; s1] ++ [32; tb]) ++ plain))
    with ([131; 112; s0; s1; 32; tb] ++ c ++ sha256 ([131; 112; s0; s1; 32; tb] ++ plain)).
  set (tag := sha256 ([131; 112; s0; s1; 32; tb] ++ plain)).
  assert (Htag : length tag = 32%nat) by apply sha256_length.
  unfold v3_process_packet.
  change (slice ([131; 112; s0; s1; 32; tb] ++ c ++ tag) 0 2) with [131; 112].
  change (idx ([131; 112; s0; s1; 32; tb] ++ c ++ tag) 4) with (Ok 32 : res N).
  change (idx ([131; 112; s0; s1; 32; tb] ++ c ++ tag) 5) with (Ok tb : res N).
  cbn [beqb bind]. rewrite !N.eqb_refl. cbn [andb negb].
  assert (Ht3 : N.land tb 15 = 3).
  { change 15 with (N.ones 4). rewrite N.land_ones. change (2 ^ 4) with 16. unfold tb. lia. }
  rewrite Ht3. unfold PacketType_ENCRYPTED_RESPONSE. cbn [N.eqb Pos.eqb].
  unfold v3_decode_encrypted_response.
  rewrite (shape_cipher_neg s0 s1 tb c tag Htag), (shape_tag_neg s0 s1 tb c tag Htag).
  change (firstn 6 ([131; 112; s0; s1; 32; tb] ++ c ++ tag)) with [131; 112; s0; s1; 32; tb].
  unfold decrypt_aes_cbc. rewrite (aes_key_ok_32 key Hk), Hdec. cbn [catch bind].
  fold tag. rewrite beqb_refl'. cbn [negb idx nth_error bind].
  assert (Hsh : N.to_nat (N.shiftr tb 4) = pad).
  { rewrite N.shiftr_div_pow2. change (2 ^ 4) with 16. unfold tb. lia. }
  rewrite Hsh, Hpl. unfold slice, plain.
  assert (Hbb : exists a b, be_bytes 2 counter = [a; b]) by (apply len2, be_bytes_length).
  destruct Hbb as (a & b & ->). cbn [app skipn].
  replace (2 + length data + pad - pad - 2)%nat with (length data + 0)%nat by lia.
  rewrite firstn_app_2. cbn [firstn]. rewrite app_nil_r. reflexivity.
Qed.

(* ---------- C05: tamper evidence of encrypted responses ---------- *)
Definition v3_signed (k p : bytes) : option bytes :=
  match decrypt_aes_cbc k (slice_neg p 6 32) with Ok dec => Some (firstn 6 p ++ dec) | Err _ => None end.

(* accepted => the tag is the SHA-256 of header and decrypted content, and the payload is cut out of that content *)
Theorem v3_accept_tag k p d : v3_decode_encrypted_response (Some k) p = Ok d ->
  exists dec, decrypt_aes_cbc k (slice_neg p 6 32) = Ok dec
    /\ sha256 (firstn 6 p ++ dec) = last_n p 32
    /\ exists pad, idx (firstn 6 p) 5 = Ok pad /\ d = slice dec 2 (length dec - N.to_nat (N.shiftr pad 4)).
Proof.
  unfold v3_decode_encrypted_response.
  destruct (decrypt_aes_cbc k (slice_neg p 6 32)) as [dec|e0] eqn:Ed; cbn [catch bind];
    [|destruct (existsb (subclass e0) [EValue]); discriminate].
  destruct (negb (beqb _ _)) eqn:Eh; [discriminate|].
  destruct (idx (firstn 6 p) 5) as [h5|] eqn:E5; cbn [bind]; [|discriminate].
  intros H. apply Ok_inj in H. exists dec. split; [reflexivity|]. split.
  - apply beqb_true. destruct (beqb _ _); [reflexivity|discriminate].
  - exists h5. split; [reflexivity|symmetry; exact H].
Qed.

Lemma app_inv_length_local {A} (a b c d : list A) : length a = length c -> a ++ b = c ++ d -> a = c /\ b = d.
Proof.
  revert c. induction a as [|x a IH]; intros [|y c] Hl H; cbn in *; try discriminate.
  - split; [reflexivity|exact H].
  - injection H as -> H. destruct (IH c ltac:(lia) H) as [-> ->]. split; reflexivity.
Qed.

(* two accepted responses with the same signed content (header + plaintext) yield the same payload: a DIFFERENT payload
   can be accepted only with an explicit SHA-256 coincidence - the transmitted tag is the digest of a content that
   differs from the authentic one *)
Theorem v3_never_other_payload k p d p' d' :
  v3_decode_encrypted_response (Some k) p = Ok d -> v3_decode_encrypted_response (Some k) p' = Ok d' -> d' <> d ->
  exists m m', v3_signed k p = Some m /\ v3_signed k p' = Some m' /\ m' <> m /\ sha256 m' = last_n p' 32.
Proof.
  intros H H' Hne.
  destruct (v3_accept_tag _ _ _ H) as (dec & Hd & Hs & pad & Hp & ->).
  destruct (v3_accept_tag _ _ _ H') as (dec' & Hd' & Hs' & pad' & Hp' & ->).
  exists (firstn 6 p ++ dec), (firstn 6 p' ++ dec'). unfold v3_signed. rewrite Hd, Hd'.
  split; [reflexivity|]. split; [reflexivity|]. split; [|exact Hs'].
  intros Heq.
  assert (Hl6 : length (firstn 6 p) = length (firstn 6 p')).
  { unfold idx in Hp, Hp'. destruct (nth_error (firstn 6 p) 5) eqn:E1; [|discriminate].
    destruct (nth_error (firstn 6 p') 5) eqn:E2; [|discriminate].
    assert (H1 : (5 < length (firstn 6 p))%nat) by (apply nth_error_Some; congruence).
    assert (H2 : (5 < length (firstn 6 p'))%nat) by (apply nth_error_Some; congruence).
    pose proof (firstn_le_length 6 p). pose proof (firstn_le_length 6 p'). lia. }
  apply app_inv_length_local in Heq; [|exact (eq_sym Hl6)].
  destruct Heq as [Hh Hdec]. rewrite Hh in Hp'. rewrite Hp in Hp'. injection Hp' as <-. subst dec'.
  apply Hne. reflexivity.
Qed.

(* any change confined to the 32 tag bytes is rejected *)
Theorem v3_reject_tag_change k body tag tag' d :
  length tag = 32%nat -> length tag' = 32%nat -> (6 <= length body)%nat ->
  v3_decode_encrypted_response (Some k) (body ++ tag) = Ok d -> tag' <> tag ->
  v3_decode_encrypted_response (Some k) (body ++ tag') = Err EProtocol.
Proof.
  intros Ht Ht' Hb Hacc Hne.
  assert (Hparts : forall t, length t = 32%nat ->
            firstn 6 (body ++ t) = firstn 6 body /\ slice_neg (body ++ t) 6 32 = skipn 6 body /\ last_n (body ++ t) 32 = t).
  { intros t Hlt. repeat split.
    - rewrite firstn_app. replace (6 - length body)%nat with 0%nat by lia. cbn [firstn]. apply app_nil_r.
    - unfold slice_neg, slice. change (Nat.eqb 32 0) with false. cbv iota. rewrite app_length, Hlt.
      rewrite skipn_app. replace (6 - length body)%nat with 0%nat by lia. cbn [skipn].
      replace (length body + 32 - 32 - 6)%nat with (length (skipn 6 body) + 0)%nat by (rewrite skipn_length; lia).
      rewrite firstn_app_2. cbn [firstn]. apply app_nil_r.
    - unfold last_n. change (Nat.eqb 32 0) with false. cbv iota. rewrite app_length, Hlt.
      replace (length body + 32 - 32)%nat with (length body) by lia. rewrite skipn_app, skipn_all, Nat.sub_diag. reflexivity. }
  destruct (v3_accept_tag _ _ _ Hacc) as (dec & Hd & Hs & _).
  destruct (Hparts tag Ht) as (H1 & H2 & H3). destruct (Hparts tag' Ht') as (H1' & H2' & H3').
  rewrite H1, H2, H3 in *. unfold v3_decode_encrypted_response. rewrite H1', H2', H3', Hd. cbn [catch bind]. rewrite Hs.
  destruct (beqb tag tag') eqn:E; [apply beqb_true in E; congruence|reflexivity].
Qed.


(* ---------- C06: the handshake ---------- *)
Theorem get_local_key_exact key r k : key32 key -> wfb r ->
  (get_local_key key r = Ok k <->
   exists nonce, length nonce = 32%nat /\ wfb nonce /\ ref_handshake_reply key nonce = Some r /\ k = ref_session_key key nonce).
Proof.
  intros Hk Hr. unfold get_local_key, ref_handshake_reply, ref_session_key, decrypt_aes_cbc.
  rewrite (aes_key_ok_32 key Hk). split.
  - destruct (negb (Nat.eqb (length r) 64)) eqn:E64; [discriminate|].
    assert (Hlen : length r = 64%nat) by (destruct (Nat.eqb_spec (length r) 64); [assumption|discriminate]).
    assert (Hl32 : length (firstn 32 r) = 32%nat) by (rewrite firstn_length; lia).
    destruct (cbc_enc_dec key (firstn 32 r) (wfb_firstn 32 r Hr) ltac:(rewrite Hl32; reflexivity))
      as (dec & Hdec & Hld & Hwd & Henc).
    rewrite Hdec. cbn [bind].
    destruct (negb (beqb (sha256 dec) (skipn 32 r))) eqn:Eh; [discriminate|].
    assert (Hsha : sha256 dec = skipn 32 r) by (apply beqb_true; destruct (beqb _ _); [reflexivity|discriminate]).
    unfold strxor. rewrite Hld, Hl32. unfold key32 in Hk. rewrite Hk. cbn [Nat.eqb].
    intros H. apply Ok_inj in H. exists dec. repeat split; try assumption.
    + rewrite Hld. exact Hl32.
    + rewrite Henc. cbn [ok_or_none]. rewrite Hsha, firstn_skipn. reflexivity.
    + symmetry. exact H.
  - intros (nonce & Hln & Hwn & Hrep & ->).
    destruct (cbc_dec_enc key nonce Hwn ltac:(rewrite Hln; reflexivity)) as (c & Hc & Hlc & Hwc & Hdec).
    rewrite Hc in Hrep. cbn [ok_or_none] in Hrep. apply (f_equal (fun o => match o with Some x => x | None => [] end)) in Hrep.
    cbv beta iota in Hrep. subst r.
    rewrite app_length, Hlc, Hln, sha256_length. cbn [Nat.add Nat.eqb negb].
    assert (Hf : firstn 32 (c ++ sha256 nonce) = c).
    { replace 32%nat with (length c + 0)%nat by lia. rewrite firstn_app_2. cbn [firstn]. apply app_nil_r. }
    assert (Hs : skipn 32 (c ++ sha256 nonce) = sha256 nonce).
    { replace 32%nat with (length c) by lia. rewrite skipn_app, skipn_all, Nat.sub_diag. reflexivity. }
    rewrite Hf, Hs, Hdec. cbn [bind]. rewrite beqb_refl'. cbn [negb].
    unfold strxor. unfold key32 in Hk. rewrite Hln, Hk. reflexivity.
Qed.

(* every failure of the key derivation is an authentication error (for a 32-byte key) *)
Theorem get_local_key_errors key r e : key32 key -> wfb r -> get_local_key key r = Err e -> e = EAuth.
Proof.
  intros Hk Hr. unfold get_local_key, decrypt_aes_cbc. rewrite (aes_key_ok_32 key Hk).
  destruct (negb (Nat.eqb (length r) 64)) eqn:E64; [intros H; injection H as <-; reflexivity|].
  assert (Hlen : length r = 64%nat) by (destruct (Nat.eqb_spec (length r) 64); [assumption|discriminate]).
  assert (Hl32 : length (firstn 32 r) = 32%nat) by (rewrite firstn_length; lia).
  destruct (cbc_enc_dec key (firstn 32 r) (wfb_firstn 32 r Hr) ltac:(rewrite Hl32; reflexivity))
    as (dec & Hdec & Hld & Hwd & Henc).
  rewrite Hdec. cbn [bind].
  destruct (negb (beqb (sha256 dec) (skipn 32 r))); [intros H; injection H as <-; reflexivity|].
  unfold strxor. unfold key32 in Hk. rewrite Hld, Hl32, Hk. cbn [Nat.eqb]. discriminate.
Qed.

(* key agreement: after a genuine reply the client's session key is the device's, and the client's next request is
   accepted by the reference device under that key *)
Theorem handshake_agreement key nonce r pid data rnd :
  key32 key -> wfb key -> length nonce = 32%nat -> wfb nonce -> ref_handshake_reply key nonce = Some r ->
  pid < 65536 -> wfb data -> wfb rnd -> N.of_nat (length data) <= 65000 -> (v3_pad (length data) <= length rnd)%nat ->
  exists k p, get_local_key key r = Ok k /\ k = ref_session_key key nonce
              /\ v3_encode_request (Some k) pid data rnd = Ok p
              /\ ref_v3_parse_request (ref_session_key key nonce) p = Some (pid, data).
Proof.
  intros Hk Hwk Hln Hwn Hrep Hpid Hd Hr Hl Hrl.
  assert (Hwr : wfb r).
  { unfold ref_handshake_reply in Hrep.
    destruct (cbc_dec_enc key nonce Hwn ltac:(rewrite Hln; reflexivity)) as (c & Hc & Hlc & Hwc & Hdec).
    rewrite Hc in Hrep. cbn [ok_or_none] in Hrep. injection Hrep as <-. apply wfb_app; [exact Hwc|apply sha256_wfb]. }
  assert (Hglk : get_local_key key r = Ok (ref_session_key key nonce)).
  { apply (get_local_key_exact key r _ Hk Hwr). exists nonce. repeat split; assumption. }
  assert (Hk32 : key32 (ref_session_key key nonce)).
  { unfold key32, ref_session_key. rewrite xor_bytes_length; [exact Hln|unfold key32 in Hk; lia]. }
  destruct (v3_request_interop (ref_session_key key nonce) pid data rnd Hk32 Hpid Hd Hr Hl Hrl) as (p & Hp & Hparse).
  exists (ref_session_key key nonce), p. repeat split; assumption.
Qed.
