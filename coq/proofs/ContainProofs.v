(* C09, byte level: whatever bytes the peer sends, the packet decoders yield a result or a protocol error. *)
From MS Require Import lib.Base gen.GenLan crypto.MD5 crypto.SHA256 crypto.AES crypto.Modes model.Lan
  proofs.FrameProofs proofs.HashProofs proofs.DrainProofs.
From Coq Require Import ZifyBool ZifyN ZifyNat.

Lemma ecb_dec_err key d e : ecb_dec key d = Err e -> e = EValue.
Proof. unfold ecb_dec. destruct (aligned16 d); [discriminate|]. intros H. injection H as <-. reflexivity. Qed.
Lemma cbc_dec_err key d e : cbc_dec key d = Err e -> e = EValue.
Proof. unfold cbc_dec. destruct (aligned16 d); [discriminate|]. intros H. injection H as <-. reflexivity. Qed.
Lemma pkcs7_unpad_err l e : pkcs7_unpad l = Err e -> e = EValue.
Proof.
  unfold pkcs7_unpad. destruct (length l =? 0)%nat; [intros H; injection H as <-; reflexivity|].
  destruct (negb _); [intros H; injection H as <-; reflexivity|].
  destruct (_ || _); [intros H; injection H as <-; reflexivity|].
  destruct (forallb _ _); [discriminate|]. intros H. injection H as <-. reflexivity.
Qed.
Lemma decrypt_aes_err d e : decrypt_aes d = Err e -> e = EValue.
Proof.
  unfold decrypt_aes. destruct (ecb_dec ENC_KEY d) as [p|e'] eqn:E; cbn [bind].
  - apply pkcs7_unpad_err.
  - intros H. injection H as <-. eapply ecb_dec_err; eassumption.
Qed.
Lemma decrypt_aes_cbc_err k d e : decrypt_aes_cbc k d = Err e -> e = EValue.
Proof. unfold decrypt_aes_cbc. destruct (aes_key_ok k); [apply cbc_dec_err|]. intros H. injection H as <-. reflexivity. Qed.

Lemma catch_value {A} (r : res A) : (forall e, r = Err e -> e = EValue) ->
  forall e, catch r [EValue] (fun _ => Err EProtocol) = Err e -> e = EProtocol.
Proof.
  intros Hr e. unfold catch. destruct r as [a|e'] eqn:E; [discriminate|].
  rewrite (Hr e' eq_refl). cbn. intros H. injection H as <-. reflexivity.
Qed.

(* _Packet.decode on EVERY byte string *)
Theorem v2_decode_contained p e : v2_decode p = Err e -> e = EProtocol.
Proof.
  unfold v2_decode. destruct (length p <? 6)%nat; [intros H; injection H as <-; reflexivity|].
  destruct (negb (beqb (slice p 0 2) [90; 90])); [intros H; injection H as <-; reflexivity|].
  destruct (length p <? _)%nat; [intros H; injection H as <-; reflexivity|].
  destruct (negb (beqb _ _)); [intros H; injection H as <-; reflexivity|].
  apply catch_value. intros e'. apply decrypt_aes_err.
Qed.

(* _decode_encrypted_response / _process_packet on every packet that has a header, with or without a session key *)
Theorem v3_decode_contained key p e : (6 <= length p)%nat -> v3_decode_encrypted_response key p = Err e -> e = EProtocol.
Proof.
  intros Hl. unfold v3_decode_encrypted_response. destruct key as [k|]; [|intros H; injection H as <-; reflexivity].
  destruct (catch (decrypt_aes_cbc k (slice_neg p 6 32)) [EValue] (fun _ => Err EProtocol)) as [dec|e'] eqn:Ec; cbn [bind].
  - destruct (negb (beqb _ _)); [intros H; injection H as <-; reflexivity|].
    assert (Hi : exists h5, idx (firstn 6 p) 5 = Ok h5).
    { unfold idx. destruct (nth_error (firstn 6 p) 5) eqn:E; [eexists; reflexivity|].
      apply nth_error_None in E. rewrite firstn_length in E. lia. }
    destruct Hi as [h5 ->]. cbn [bind]. discriminate.
  - intros H. injection H as <-. revert Ec. apply catch_value. intros e''. apply decrypt_aes_cbc_err.
Qed.

Theorem v3_process_contained key p e : (6 <= length p)%nat -> v3_process_packet key p = Err e -> e = EProtocol.
Proof.
  intros Hl. unfold v3_process_packet.
  destruct (negb (beqb (slice p 0 2) [131; 112])); [intros H; injection H as <-; reflexivity|].
  assert (H4 : exists x, idx p 4 = Ok x).
  { unfold idx. destruct (nth_error p 4) eqn:E; [eexists; reflexivity|]. apply nth_error_None in E. lia. }
  assert (H5 : exists x, idx p 5 = Ok x).
  { unfold idx. destruct (nth_error p 5) eqn:E; [eexists; reflexivity|]. apply nth_error_None in E. lia. }
  destruct H4 as [p4 ->]. destruct H5 as [p5 ->]. cbn [bind].
  destruct (negb (p4 =? 32)); [intros H; injection H as <-; reflexivity|].
  destruct (N.land p5 15 =? PacketType_ENCRYPTED_RESPONSE); [apply v3_decode_contained, Hl|].
  destruct (N.land p5 15 =? PacketType_HANDSHAKE_RESPONSE); [discriminate|].
  intros H. injection H as <-. reflexivity.
Qed.

(* LAN._read on a V3 connection: _process_packet then _Packet.decode *)
Definition lan_read_v3 (key : option bytes) (p : bytes) : res bytes := do payload <- v3_process_packet key p; v2_decode payload.
Theorem lan_read_v3_contained key p e : (6 <= length p)%nat -> lan_read_v3 key p = Err e -> e = EProtocol.
Proof.
  intros Hl. unfold lan_read_v3. destruct (v3_process_packet key p) as [payload|e'] eqn:E; cbn [bind].
  - apply v2_decode_contained.
  - intros H. injection H as <-. eapply v3_process_contained; eassumption.
Qed.

(* every packet the reassembler queues has a complete header, so the length premise above always holds *)
Lemma rx_step_len buf p rest : rx_step buf = Some (p, rest) -> (8 <= length p)%nat.
Proof.
  rewrite step_unfold; cbv zeta. destruct (find buf) as [s|]; [|discriminate].
  destruct (length (skipn s buf) <? 6)%nat; [discriminate|].
  destruct (length (skipn s buf) <? total_size (skipn s buf))%nat eqn:Et; [discriminate|].
  intros H. injection H as <- _. apply Nat.ltb_ge in Et. rewrite firstn_length. unfold total_size in *. lia.
Qed.

Lemma drain_queue_len f : forall buf q, Forall (fun p => (8 <= length p)%nat) q ->
  Forall (fun p => (8 <= length p)%nat) (snd (drain f buf q)).
Proof.
  induction f as [|f IH]; intros buf q Hq; cbn [drain]; [exact Hq|].
  destruct buf as [|x xs]; [exact Hq|].
  destruct (rx_step (x :: xs)) as [[p rest]|] eqn:E; [|exact Hq].
  apply IH. apply Forall_app. split; [exact Hq|]. constructor; [eapply rx_step_len; eassumption|constructor].
Qed.

Theorem queued_packets_have_header segs :
  Forall (fun p => (8 <= length p)%nat) (snd (fold_left data_received segs ([], []))).
Proof.
  assert (H : forall st, Forall (fun p => (8 <= length p)%nat) (snd st) ->
                         Forall (fun p => (8 <= length p)%nat) (snd (fold_left data_received segs st))).
  { induction segs as [|d t IH]; intros st Hst; cbn [fold_left]; [exact Hst|].
    apply IH. unfold data_received, drain_all. apply drain_queue_len. exact Hst. }
  apply H. constructor.
Qed.

(* the handshake: with a 32-byte key every failure is an authentication error (LanV3Proofs.get_local_key_errors);
   with ANY key the failure is an authentication error or the ValueError of a key of unusable length - which is the
   caller's own argument, not peer data *)
Theorem get_local_key_contained key r e : get_local_key key r = Err e -> e = EAuth \/ e = EValue.
Proof.
  unfold get_local_key. destruct (negb (Nat.eqb (length r) 64)); [intros H; injection H as <-; auto|].
  destruct (decrypt_aes_cbc key (firstn 32 r)) as [dec|e'] eqn:E; cbn [bind].
  - destruct (negb (beqb _ _)); [intros H; injection H as <-; auto|].
    unfold strxor. destruct (Nat.eqb _ _); [discriminate|]. intros H. injection H as <-. auto.
  - intros H. injection H as <-. right. eapply decrypt_aes_cbc_err; eassumption.
Qed.
