(* containment over whole histories *)
From MS Require Import lib.Base gen.GenLan model.Session proofs.SessionProofs proofs.SessionHoare.
Local Open Scope N_scope.

Definition out_ok (o : outcome) : Prop := match o with OutErr e => allowed e | _ => True end.
Definition op_ok (o : op) : Prop := match o with OAuth _ r => r <> O | _ => True end.

Lemma run_op_contained o w : op_ok o -> out_ok (fst (run_op o w)).
Proof.
  intros Hok. unfold run_op. destruct (run_op_raw o w) as [r w'] eqn:H. cbn [fst].
  destruct o as [f r0|g r0|f|g|ms|ms]; cbn [run_op_raw] in H.
  - pose proof (lan_send_contained f r0 w I) as Hs. destruct (lan_send f r0 w) as [[l|e] w1]; injection H as <- <-; cbn; auto.
  - cbn in Hok. destruct r0 as [|r0]; [contradiction|].
    pose proof (lan_authenticate_contained g r0 w I) as Hs. destruct (lan_authenticate g (S r0) w) as [[l|e] w1]; injection H as <- <-; cbn; auto.
  - destruct (dev_send_command_total f w) as [l Hl]. destruct (dev_send_command f w) as [[l'|e] w1]; injection H as <- <-; cbn; auto.
    cbn in Hl. discriminate.
  - pose proof (dev_authenticate_contained g w) as Hs. destruct (dev_authenticate g w) as [[l'|e] w1]; injection H as <- <-; cbn; auto.
    right; left. apply Hs. reflexivity.
  - destruct (advance_to (w_now w + ms) w); injection H as <- <-; exact I.
  - cbn in H. injection H as <- <-. exact I.
Qed.
(* whole histories: whatever sequence of exchanges, authentications, waits and reconfigurations is run against whatever
   environment (refusals, silence, garbage, error packets, wrong keys, closes, arbitrary delays), every operation ends in its
   result, a ProtocolError, an AuthenticationError or a TimeoutError - nothing else ever comes out *)
Theorem history_contained os : forall w, Forall op_ok os -> Forall out_ok (fst (run_ops os w)).
Proof.
  induction os as [|o t IH]; intros w Hok; cbn [run_ops]; [constructor|].
  inversion Hok as [|? ? Ho Ht]; subst. pose proof (run_op_contained o w Ho) as H1.
  destruct (run_op o w) as [r w1]. specialize (IH w1 Ht). destruct (run_ops t w1) as [rs w2]. cbn [fst] in *. constructor; assumption.
Qed.
