(* C16: property-protocol settings.  Which property writes an apply sends (once, only after a change), under which id and
   with which value bytes (vendor encoding, as the reference appliance parses them); one breeze mode at a time; read back. *)
From MS Require Import lib.Base gen.GenConst gen.GenCmd gen.GenDev model.Frame model.Command model.Response model.Device
  spec.RefProps proofs.FrameProofs proofs.HashProofs proofs.CommandProofs proofs.DeviceProofs proofs.TotalProofs.
From RecordUpdate Require Import RecordSet.
Import RecordSetNotations.
From Coq Require Import ZifyBool ZifyN ZifyNat.
Ltac Zify.zify_post_hook ::= Z.div_mod_to_equations.
Local Open Scope N_scope.

(* ---------- setters record exactly their id, chosen by what the appliance advertised ---------- *)
Definition breeze_id (d : dev) (legacy : N) : N :=
  if has_prop d PropertyId_BREEZE_CONTROL then PropertyId_BREEZE_CONTROL else legacy.

Theorem setters_mark d :
  (forall en, d_upd_props (set_breeze_away d en) = set_add (breeze_id d PropertyId_BREEZE_AWAY) (d_upd_props d))
  /\ (forall en, d_upd_props (set_breeze_mild d en) = set_add PropertyId_BREEZE_CONTROL (d_upd_props d))
  /\ (forall en, d_upd_props (set_breezeless d en) = set_add (breeze_id d PropertyId_BREEZELESS) (d_upd_props d))
  /\ (forall v, d_upd_props (set_hangle d v) = set_add PropertyId_SWING_LR_ANGLE (d_upd_props d))
  /\ (forall v, d_upd_props (set_vangle d v) = set_add PropertyId_SWING_UD_ANGLE (d_upd_props d))
  /\ (forall b, d_upd_props (set_ieco d b) = set_add PropertyId_IECO (d_upd_props d))
  /\ (forall v, d_upd_props (set_rate d v) = set_add PropertyId_RATE_SELECT (d_upd_props d)).
Proof. repeat split; intros; reflexivity. Qed.

Lemma mem_in x l : mem x l = true <-> In x l.
Proof.
  unfold mem. rewrite existsb_exists. split.
  - intros (y & Hy & E). apply N.eqb_eq in E. subst. exact Hy.
  - intros H. exists x. split; [exact H|apply N.eqb_refl].
Qed.


Lemma nodup_snoc {A} (l : list A) x : NoDup l -> ~ In x l -> NoDup (l ++ [x]).
Proof.
  induction l as [|a l IH]; intros Hn Hx; cbn [app]; [constructor; [intros []|constructor]|].
  inversion Hn as [|? ? Ha Hl]; subst. constructor.
  - intros Hin. apply in_app_or in Hin. destruct Hin as [Hin|[->|[]]]; [contradiction|]. apply Hx. left. reflexivity.
  - apply IH; [exact Hl|]. intros H. apply Hx. right. exact H.
Qed.

Lemma set_add_nodup x l : NoDup l -> NoDup (set_add x l).
Proof.
  intros H. unfold set_add. destruct (mem x l) eqn:E; [exact H|].
  apply nodup_snoc; [exact H|]. intros Hin. apply mem_in in Hin. congruence.
Qed.

Lemma set_add_in x y l : In y (set_add x l) <-> y = x \/ In y l.
Proof.
  unfold set_add. destruct (mem x l) eqn:E.
  - split; [auto|]. intros [->|H]; [apply mem_in, E|exact H].
  - rewrite in_app_iff. cbn [In]. split; [intros [H|[<-|[]]]; auto|intros [->|H]; auto].
Qed.

(* ---------- responses never touch the set of changed ids or the advertised set ---------- *)
Lemma opt_apply_keeps {A B} (proj : dev -> B) (o : option A) d f :
  (forall a d0, proj (f a d0) = proj d0) -> proj (opt_apply o d f) = proj d.
Proof. intros H. destruct o; cbn [opt_apply]; [apply H|reflexivity]. Qed.

Lemma legacy_breeze_upd own v d : d_upd_props (legacy_breeze own v d) = d_upd_props d.
Proof. unfold legacy_breeze. destruct (negb (v =? 0)); [reflexivity|]. destruct (d_breeze d =? own); reflexivity. Qed.

Lemma update_from_props_upd d p : d_upd_props (update_from_props d p) = d_upd_props d.
Proof.
  unfold update_from_props.
  rewrite (opt_apply_keeps d_upd_props) by reflexivity.
  destruct (pdict_get p PropertyId_BREEZE_CONTROL).
  - match goal with |- d_upd_props (?X <| d_breeze := ?v |>) = _ => change (d_upd_props (X <| d_breeze := v |>)) with (d_upd_props X) end.
    repeat (rewrite (opt_apply_keeps d_upd_props) by reflexivity). reflexivity.
  - rewrite (opt_apply_keeps d_upd_props) by (intros; apply legacy_breeze_upd).
    rewrite (opt_apply_keeps d_upd_props) by (intros; apply legacy_breeze_upd).
    repeat (rewrite (opt_apply_keeps d_upd_props) by reflexivity). reflexivity.
Qed.

Lemma update_state_upd d r : d_upd_props (update_state d r) = d_upd_props d.
Proof. destruct r; cbn [update_state]; try reflexivity. apply update_from_props_upd. Qed.

Lemma fold_update_upd rs : forall d, d_upd_props (fold_left update_state rs d) = d_upd_props d.
Proof. induction rs as [|r rs IH]; intros d; cbn [fold_left]; [reflexivity|]. rewrite IH. apply update_state_upd. Qed.

(* ---------- what an apply sends ---------- *)
Definition prop_writes (d : dev) (upd : list N) : list (N * N) :=
  map (fun k => (k, property_value d k)) (filter (fun k => mem k PROPERTY_MAP_keys) upd)
  ++ [(PropertyId_BUZZER, b2n (d_beep d))].

Section Apply.
  Variable P : Type.
  Variable peer : P -> bytes -> P * list bytes.

  (* no changed setting: the control command only.  otherwise: the control command, then ONE property write carrying
     every changed id once with the value the attribute has at that moment plus the buzzer; the change set is emptied *)
  Theorem apply_sends w : dev_wf (w_dev w) ->
    exists d2, d_upd_props d2 = d_upd_props (w_dev w) /\
    let w' := fst (apply_op peer w) in
    match d_upd_props (w_dev w) with
    | [] => w_sent w' = w_sent w ++ [SetState (apply_ctrl (w_dev w))]
    | upd => w_sent w' = w_sent w ++ [SetState (apply_ctrl (w_dev w)); SetProps (prop_writes d2 upd)]
             /\ d_upd_props (w_dev w') = []
    end.
  Proof.
    intros Hwf. pose proof Hwf as (Hfan & Hh & Hv & Hr & Hb & Hsp & Hup). unfold apply_op.
    destruct (send_ok P peer w (SetState (apply_ctrl (w_dev w)))) as (p' & n' & rs & ->).
    { apply encodable_set_state. exact Hfan. }
    set (d1 := w_dev w <| d_supported := negb (Nat.eqb (length rs) 0) |>).
    set (d2 := fold_left update_state rs d1).
    assert (Hupd2 : d_upd_props d2 = d_upd_props (w_dev w)).
    { unfold d2. rewrite fold_update_upd. unfold d1. destruct (w_dev w). reflexivity. }
    exists d2. split; [exact Hupd2|].
    unfold upd_dev. cbn [w_dev w_peer w_counter w_sent]. fold d1. fold d2. rewrite Hupd2.
    destruct (d_upd_props (w_dev w)) as [|u us] eqn:Eu; [reflexivity|].
    assert (Hinv1 : inv (length (d_upd_props (w_dev w))) d1).
    { unfold d1. destruct (w_dev w). split; [repeat split; assumption|reflexivity]. }
    pose proof (fold_update_inv P peer _ rs d1 Hinv1) as [Hsmall Hlen]. fold d2 in Hsmall, Hlen.
    unfold apply_properties. cbn [w_dev].
    match goal with |- context [send_get_responses peer ?w2 ?c] =>
      destruct (send_ok P peer w2 c) as (p3 & n3 & rs3 & ->) end.
    { apply buzzer_kvs_ok.
      - rewrite map_length. etransitivity; [apply filter_len_le|]. exact Hup.
      - apply Forall_forall. intros [k v] Hin. apply in_map_iff in Hin. destruct Hin as [k' [Hkv Hin]].
        injection Hkv as <- <-. apply filter_In in Hin. destruct Hin as [_ Hmem]. cbn [fst snd]. split.
        + assert (Hall : forallb pid_supported PROPERTY_MAP_keys = true) by (vm_compute; reflexivity).
          rewrite forallb_forall in Hall. apply Hall. apply mem_in. exact Hmem.
        + apply property_value_small. exact Hsmall. }
    cbn [fst w_sent w_dev upd_dev]. split.
    - rewrite <- app_assoc. reflexivity.
    - reflexivity.
  Qed.

  (* refresh sends queries only *)
  Definition is_write (c : cmd) : bool := match c with SetProps _ => true | _ => false end.

  Lemma send_all_sent cs : Forall (fun c => encodable c = true) cs -> forall w,
    w_sent (fst (send_all peer w cs)) = w_sent w ++ cs
    /\ d_upd_props (w_dev (fst (send_all peer w cs))) = d_upd_props (w_dev w).
  Proof.
    induction 1 as [|c t Hc _ IH]; intros w; cbn [send_all]; [rewrite app_nil_r; split; reflexivity|].
    destruct (send_ok P peer w c Hc) as (p' & n' & rs & ->).
    specialize (IH (mkWorld (w_dev w <| d_supported := negb (Nat.eqb (length rs) 0) |>) p' n' (w_sent w ++ [c]))).
    destruct (send_all peer _ t) as [w2 [rest|e]]; cbn [fst] in *; destruct IH as [IH1 IH2]; cbn [w_sent w_dev] in *;
      (split; [rewrite IH1, <- app_assoc; reflexivity|rewrite IH2; destruct (w_dev w); reflexivity]).
  Qed.

  Theorem refresh_writes_nothing w : (length (d_sup_props (w_dev w)) <= 120)%nat ->
    let w' := fst (refresh peer w) in
    w_sent w' = w_sent w ++ refresh_cmds (w_dev w) /\ existsb is_write (refresh_cmds (w_dev w)) = false
    /\ d_upd_props (w_dev w') = d_upd_props (w_dev w).
  Proof.
    intros Hl. destruct (refresh_cmds_encodable (w_dev w) Hl) as [He _].
    pose proof (send_all_sent _ He w) as [Hs Hu]. unfold refresh.
    destruct (send_all peer w (refresh_cmds (w_dev w))) as [w1 [rs|e]]; cbn [fst] in *.
    - split; [exact Hs|]. split.
      + unfold refresh_cmds. destruct (d_request_energy (w_dev w)), (d_sup_humidity (w_dev w)), (d_sup_props (w_dev w)); reflexivity.
      + unfold upd_dev. cbn [w_dev]. rewrite fold_update_upd. cbn [d_upd_props]. destruct (w_dev w1). exact Hu.
    - split; [exact Hs|]. split; [|exact Hu].
      unfold refresh_cmds. destruct (d_request_energy (w_dev w)), (d_sup_humidity (w_dev w)), (d_sup_props (w_dev w)); reflexivity.
  Qed.
End Apply.

(* the ids of one write are distinct when the change set is (it always is: setters use set_add) *)
Theorem write_ids_distinct d upd : NoDup upd -> NoDup (map fst (prop_writes d upd)).
Proof.
  intros H. unfold prop_writes. rewrite map_app, map_map. cbn [map fst]. rewrite map_id.
  apply nodup_snoc; [apply NoDup_filter, H|].
  intros Hin. apply filter_In in Hin. destruct Hin as [_ Hm]. vm_compute in Hm. discriminate.
Qed.

(* ---------- value encoding = vendor encoding ---------- *)
Definition setting_for (d : dev) (k : N) : option setting :=
  if k =? PropertyId_BREEZE_AWAY then Some (SBreezeAway (d_breeze d =? BreezeMode_BREEZE_AWAY))
  else if k =? PropertyId_BREEZE_CONTROL then Some (SBreezeControl (d_breeze d))
  else if k =? PropertyId_BREEZELESS then Some (SBreezeless (d_breeze d =? BreezeMode_BREEZELESS))
  else if k =? PropertyId_IECO then Some (SIeco (d_ieco d))
  else if k =? PropertyId_RATE_SELECT then Some (SRate (d_rate d))
  else if k =? PropertyId_SWING_LR_ANGLE then Some (SLrAngle (d_hangle d))
  else if k =? PropertyId_SWING_UD_ANGLE then Some (SUdAngle (d_vangle d))
  else None.

Lemma pe_plain k v : existsb (N.eqb k) [67; 24; 72; 10; 9] = true -> v < 256 -> prop_encode k v = Ok [v].
Proof.
  intros Hk Hv. unfold prop_encode.
  assert (pid_supported k = true /\ (k =? PropertyId_BREEZE_AWAY) = false /\ (k =? PropertyId_IECO) = false) as (-> & -> & ->).
  { cbn [existsb] in Hk.
    repeat (apply orb_prop in Hk; destruct Hk as [Hk|Hk]); try discriminate; apply N.eqb_eq in Hk; subst k; repeat split; reflexivity. }
  cbn [negb]. destruct (255 <? v) eqn:E; [lia|reflexivity].
Qed.
Lemma pe_away v : prop_encode PropertyId_BREEZE_AWAY v = Ok [if v =? 0 then 1 else 2].
Proof. reflexivity. Qed.
Lemma pe_ieco v : v < 256 -> prop_encode PropertyId_IECO v = Ok ([0; 1; v] ++ zeros 10).
Proof.
  intros Hv. unfold prop_encode. change (pid_supported PropertyId_IECO) with true.
  change (PropertyId_IECO =? PropertyId_BREEZE_AWAY) with false. change (PropertyId_IECO =? PropertyId_IECO) with true.
  cbn [negb]. destruct (255 <? v) eqn:E; [lia|reflexivity].
Qed.

Theorem encoding_is_vendor d k : props_small d -> In k PROPERTY_MAP_keys ->
  exists s, setting_for d k = Some s /\ vendor_id s = k /\ prop_encode k (property_value d k) = Ok (vendor_value s).
Proof.
  intros (H1 & H2 & H3 & H4) Hin. unfold PROPERTY_MAP_keys in Hin. cbn [In] in Hin.
  destruct Hin as [<-|[<-|[<-|[<-|[<-|[<-|[<-|[]]]]]]]]; eexists; (split; [reflexivity|]); (split; [reflexivity|]).
  - change (property_value d 66) with (b2n (d_breeze d =? BreezeMode_BREEZE_AWAY)). rewrite (pe_away _).
    destruct (d_breeze d =? BreezeMode_BREEZE_AWAY); reflexivity.
  - change (property_value d 67) with (d_breeze d). rewrite pe_plain by (reflexivity || assumption). reflexivity.
  - change (property_value d 24) with (b2n (d_breeze d =? BreezeMode_BREEZELESS)).
    rewrite pe_plain; [reflexivity|reflexivity|destruct (d_breeze d =? BreezeMode_BREEZELESS); cbn; lia].
  - change (property_value d 227) with (b2n (d_ieco d)). rewrite (pe_ieco _) by (destruct (d_ieco d); cbn; lia). reflexivity.
  - change (property_value d 72) with (d_rate d). rewrite pe_plain by (reflexivity || assumption). reflexivity.
  - change (property_value d 10) with (d_hangle d). rewrite pe_plain by (reflexivity || assumption). reflexivity.
  - change (property_value d 9) with (d_vangle d). rewrite pe_plain by (reflexivity || assumption). reflexivity.
Qed.

Theorem buzzer_and_self_clean_vendor b :
  prop_encode PropertyId_BUZZER (b2n b) = Ok (vendor_value (SBuzzer b)) /\ vendor_id (SBuzzer b) = PropertyId_BUZZER
  /\ prop_encode PropertyId_SELF_CLEAN 1 = Ok (vendor_value (SSelfClean true)) /\ vendor_id (SSelfClean true) = PropertyId_SELF_CLEAN.
Proof. destruct b; repeat split; reflexivity. Qed.

(* ---------- wire: the reference appliance parses the write into exactly those records ---------- *)
Lemma parse_set_records_ok kvs : forall r, set_props_records kvs = Ok r ->
  exists recs, parse_set_records (length kvs) r = Some recs
    /\ Forall2 (fun kv rc => fst rc = fst kv /\ prop_encode (fst kv) (snd kv) = Ok (snd rc)) kvs recs.
Proof.
  induction kvs as [|[k v] kvs IH]; intros r H; cbn [set_props_records] in H.
  - apply Ok_inj in H. subst r. exists []. split; [reflexivity|constructor].
  - destruct (prop_encode k v) as [e|] eqn:Ee; cbn [bind] in H; [|discriminate].
    destruct (set_props_records kvs) as [rest|] eqn:Er; cbn [bind] in H; [|discriminate].
    apply Ok_inj in H. subst r. destruct (IH rest eq_refl) as (recs & Hp & Hall).
    destruct (prop_encode_wfb k v e Ee) as [Hw Hlen].
    assert (Hk : k < 65536).
    { apply pid_supported_lt. unfold prop_encode in Ee. destruct (pid_supported k); [reflexivity|discriminate]. }
    exists ((k, e) :: recs). split; [|constructor; [split; [reflexivity|exact Ee]|exact Hall]].
    cbn [length parse_set_records le_bytes app].
    rewrite Nat2N.id, app_length. destruct (length e + length rest <? length e)%nat eqn:El; [lia|].
    rewrite skipn_app, skipn_all, Nat.sub_diag. cbn [skipn app]. rewrite Hp.
    rewrite firstn_app, firstn_all, Nat.sub_diag. cbn [firstn]. rewrite app_nil_r.
    repeat f_equal. lia.
Qed.

Theorem write_parsed_by_reference kvs body : cmd_body (SetProps kvs) = Ok body ->
  exists recs, ref_parse_set body = Some recs
    /\ Forall2 (fun kv rc => fst rc = fst kv /\ prop_encode (fst kv) (snd kv) = Ok (snd rc)) kvs recs.
Proof.
  cbn [cmd_body]. destruct (255 <? length kvs)%nat eqn:El; [discriminate|].
  destruct (set_props_records kvs) as [r|] eqn:Er; cbn [bind]; [|discriminate].
  intros H. apply Ok_inj in H. subst body. destruct (parse_set_records_ok kvs r Er) as (recs & Hp & Hall).
  exists recs. split; [|exact Hall]. cbn [app ref_parse_set]. rewrite Nat2N.id. exact Hp.
Qed.

(* ---------- at most one breeze mode reads active, in every state ---------- *)
Definition breeze_away (d : dev) : bool := d_breeze d =? BreezeMode_BREEZE_AWAY.
Definition breeze_mild (d : dev) : bool := d_breeze d =? BreezeMode_BREEZE_MILD.
Definition breezeless (d : dev) : bool := d_breeze d =? BreezeMode_BREEZELESS.
Theorem one_breeze_mode d : (b2n (breeze_away d) + b2n (breeze_mild d) + b2n (breezeless d) <= 1).
Proof.
  unfold breeze_away, breeze_mild, breezeless, BreezeMode_BREEZE_AWAY, BreezeMode_BREEZE_MILD, BreezeMode_BREEZELESS.
  destruct (N.eqb_spec (d_breeze d) 2), (N.eqb_spec (d_breeze d) 3), (N.eqb_spec (d_breeze d) 4); cbn [b2n]; lia.
Qed.

(* ---------- read back: the properties response of the reference appliance, parsed and applied ---------- *)
Lemma loop_unfold n lo hi t L data acc :
  parse_props_loop (S n) (lo :: hi :: t :: L :: data) acc =
    if L =? 0 then parse_props_loop n data acc else
    let raw_id := lo + 256 * (hi + 256 * 0) in
    let next := skipn (N.to_nat L) data in
    if negb (pid_known raw_id) then parse_props_loop n next acc else
    match prop_decode raw_id data with
    | Err ENotImpl => parse_props_loop n next acc
    | Err e => Err e
    | Ok None => parse_props_loop n next acc
    | Ok (Some v) => parse_props_loop n next (pdict_update acc raw_id v)
    end.
Proof. reflexivity. Qed.

(* what the client's decoder makes of a reported value *)
Definition decode1 (k : N) (v : bytes) : option N :=
  if k =? PropertyId_BUZZER then None
  else if (k =? PropertyId_BREEZELESS) || (k =? PropertyId_SELF_CLEAN) then Some (b2n (negb (nthb v 0 =? 0)))
  else if k =? PropertyId_BREEZE_AWAY then Some (b2n (nthb v 0 =? 2))
  else if k =? PropertyId_IECO then Some (b2n (negb (nthb v 1 =? 0)))
  else Some (nthb v 0).

Definition value_ok (k : N) (v : bytes) : Prop :=
  (1 <= length v < 256)%nat /\ (k = PropertyId_IECO -> (2 <= length v)%nat).

Lemma loop_record n k v rest acc : In k PropertyId_supported -> value_ok k v ->
  parse_props_loop (S n) ([k mod 256; k / 256; 0; N.of_nat (length v)] ++ v ++ rest) acc
  = parse_props_loop n rest (match decode1 k v with Some x => pdict_update acc k x | None => acc end).
Proof.
  intros Hk [Hlen Hie]. cbn [app]. rewrite loop_unfold.
  destruct (N.of_nat (length v) =? 0) eqn:E0; [lia|].
  assert (Hnext : skipn (N.to_nat (N.of_nat (length v))) (v ++ rest) = rest).
  { rewrite Nat2N.id, skipn_app, skipn_all, Nat.sub_diag. reflexivity. }
  cbv zeta. rewrite Hnext.
  destruct v as [|b0 v']; [cbn [length] in Hlen; lia|].
  unfold PropertyId_supported in Hk. cbn [In] in Hk.
  destruct Hk as [<-|[<-|[<-|[<-|[<-|[<-|[<-|[<-|[<-|[]]]]]]]]]]; try reflexivity.
  (* IECO reads the second byte *)
  destruct v' as [|b1 v'']; [specialize (Hie eq_refl); cbn [length] in Hie; lia|]. reflexivity.
Qed.

Lemma loop_records n ids : forall (s : store) rest acc,
  Forall (fun k => In k PropertyId_supported /\ exists v, lookup s k = Some v /\ value_ok k v) ids ->
  (length ids <= n)%nat ->
  parse_props_loop n (flat_map (resp_record s) ids ++ rest) acc
  = parse_props_loop (n - length ids) rest
      (fold_left (fun a k => match lookup s k with
                             | Some v => match decode1 k v with Some x => pdict_update a k x | None => a end
                             | None => a end) ids acc).
Proof.
  revert n. induction ids as [|k ids IH]; intros n s rest acc Hall Hn.
  - cbn [flat_map app length fold_left]. rewrite Nat.sub_0_r. reflexivity.
  - inversion Hall as [|? ? (Hk & v & Hv & Hok) Hall']; subst. cbn [length] in Hn.
    destruct n as [|n]; [lia|]. cbn [flat_map fold_left length]. unfold resp_record at 1. rewrite Hv.
    rewrite <- !app_assoc. rewrite (loop_record n k v _ acc Hk Hok).
    rewrite IH by (assumption || lia). reflexivity.
Qed.

(* the dictionary the client obtains from the reference appliance's response to a query for [ids] *)
Definition reported (s : store) (ids : list N) : pdict :=
  fold_left (fun a k => match lookup s k with
                        | Some v => match decode1 k v with Some x => pdict_update a k x | None => a end
                        | None => a end) ids [].

Lemma fold_skip_unanswered (s : store) ids : forall acc,
  fold_left (fun a k => match lookup s k with
                        | Some v => match decode1 k v with Some x => pdict_update a k x | None => a end
                        | None => a end) ids acc
  = fold_left (fun a k => match lookup s k with
                          | Some v => match decode1 k v with Some x => pdict_update a k x | None => a end
                          | None => a end) (answered s ids) acc.
Proof.
  induction ids as [|k ids IH]; intros acc; [reflexivity|]. cbn [fold_left answered filter].
  destruct (lookup s k) as [v|] eqn:E; [cbn [fold_left]; rewrite E; apply IH|apply IH].
Qed.

Definition store_ok (s : store) : Prop := Forall (fun kv => In (fst kv) PropertyId_supported /\ value_ok (fst kv) (snd kv)) s.

Lemma lookup_in (s : store) k v : lookup s k = Some v -> In (k, v) s.
Proof.
  induction s as [|[k0 v0] s IH]; cbn [lookup]; [discriminate|].
  destruct (N.eqb_spec k0 k) as [->|]; [intros H; injection H as ->; left; reflexivity|intros H; right; apply IH, H].
Qed.

Theorem response_parsed tag (s : store) ids : store_ok s -> (length ids < 256)%nat ->
  parse_props (response_body tag s ids) = Ok (reported s ids).
Proof.
  intros Hs Hl. unfold response_body, parse_props. cbn [app idx nth_error bind skipn].
  pose proof (filter_len_le (fun id => match lookup s id with Some _ => true | None => false end) ids) as Hfl.
  fold (answered s ids) in Hfl. rewrite Nat2N.id.
  rewrite <- (app_nil_r (flat_map (resp_record s) (answered s ids))).
  rewrite loop_records.
  - rewrite Nat.sub_diag. cbn [parse_props_loop]. unfold reported. rewrite (fold_skip_unanswered s ids []). reflexivity.
  - apply Forall_forall. intros k Hin. unfold answered in Hin. apply filter_In in Hin. destruct Hin as [_ Hk].
    destruct (lookup s k) as [v|] eqn:E; [|discriminate]. pose proof (lookup_in s k v E) as Hin.
    unfold store_ok in Hs. rewrite Forall_forall in Hs. specialize (Hs _ Hin). cbn [fst snd] in Hs.
    split; [apply Hs|]. exists v. split; [reflexivity|apply Hs].
  - lia.
Qed.

(* ---- dictionary lemmas ---- *)
Lemma pdict_get_update_same d k v : pdict_get (pdict_update d k v) k = Some v.
Proof.
  induction d as [|[k' v'] d IH]; cbn [pdict_update pdict_get]; [rewrite N.eqb_refl; reflexivity|].
  destruct (N.eqb_spec k' k) as [->|Hne]; cbn [pdict_get]; [rewrite N.eqb_refl; reflexivity|].
  destruct (N.eqb_spec k' k); [contradiction|exact IH].
Qed.
Lemma pdict_get_update_other d k v k0 : k <> k0 -> pdict_get (pdict_update d k v) k0 = pdict_get d k0.
Proof.
  intros Hne. induction d as [|[k' v'] d IH]; cbn [pdict_update pdict_get].
  - destruct (N.eqb_spec k k0); [contradiction|reflexivity].
  - destruct (N.eqb_spec k' k) as [->|Hne']; cbn [pdict_get].
    + destruct (N.eqb_spec k k0); [contradiction|reflexivity].
    + destruct (k' =? k0); [reflexivity|exact IH].
Qed.

(* what the appliance's store makes the client's decoder see for id k *)
Definition seen (s : store) (k : N) : option N := match lookup s k with Some v => decode1 k v | None => None end.

Lemma fold_get (s : store) k ids : forall acc,
  pdict_get (fold_left (fun a k => match lookup s k with
                                   | Some v => match decode1 k v with Some x => pdict_update a k x | None => a end
                                   | None => a end) ids acc) k
  = if mem k ids then match seen s k with Some x => Some x | None => pdict_get acc k end else pdict_get acc k.
Proof.
  induction ids as [|k' ids IH]; intros acc; [reflexivity|]. cbn [fold_left]. rewrite IH. clear IH.
  unfold mem at 2. cbn [existsb]. fold (mem k ids).
  set (acc' := match lookup s k' with
               | Some v => match decode1 k' v with Some x => pdict_update acc k' x | None => acc end
               | None => acc end).
  destruct (N.eqb_spec k k') as [<-|Hne]; cbn [orb].
  - assert (Hacc : pdict_get acc' k = match seen s k with Some x => Some x | None => pdict_get acc k end).
    { unfold acc', seen. destruct (lookup s k) as [v|]; [|reflexivity].
      destruct (decode1 k v); [apply pdict_get_update_same|reflexivity]. }
    destruct (mem k ids); [|exact Hacc]. destruct (seen s k); [reflexivity|].
    rewrite Hacc. reflexivity.
  - assert (Hacc : pdict_get acc' k = pdict_get acc k).
    { unfold acc'. destruct (lookup s k') as [v|]; [|reflexivity].
      destruct (decode1 k' v); [apply pdict_get_update_other; congruence|reflexivity]. }
    rewrite Hacc. reflexivity.
Qed.

(* every advertised id is queried (refresh asks for all supported properties): the dictionary shows the whole store *)
Lemma reported_get (s : store) ids k : (forall k0, lookup s k0 <> None -> In k0 ids) -> pdict_get (reported s ids) k = seen s k.
Proof.
  intros Hall. unfold reported. rewrite fold_get. cbn [pdict_get].
  destruct (mem k ids) eqn:Em; [destruct (seen s k); reflexivity|].
  unfold seen. destruct (lookup s k) as [v|] eqn:E; [|reflexivity].
  assert (In k ids) by (apply Hall; congruence). apply mem_in in H. congruence.
Qed.

(* ---- projections of update_from_props ---- *)
Lemma legacy_breeze_keeps {B} (proj : dev -> B) own :
  (forall d v, proj (d <| d_breeze := v |>) = proj d) -> forall v d, proj (legacy_breeze own v d) = proj d.
Proof. intros H v d. unfold legacy_breeze. destruct (negb (v =? 0)); [apply H|]. destruct (d_breeze d =? own); [apply H|reflexivity]. Qed.

Lemma legacy_breeze_breeze own v d :
  d_breeze (legacy_breeze own v d) = if negb (v =? 0) then own else if d_breeze d =? own then BreezeMode_OFF else d_breeze d.
Proof. unfold legacy_breeze. destruct (negb (v =? 0)); [reflexivity|]. destruct (d_breeze d =? own); reflexivity. Qed.

Definition breeze_after (d : dev) (p : pdict) : N :=
  match pdict_get p PropertyId_BREEZE_CONTROL with
  | Some v => if mem v BreezeMode_values then v else BreezeMode_OFF
  | None =>
    let b1 := match pdict_get p PropertyId_BREEZE_AWAY with
              | Some v => if negb (v =? 0) then BreezeMode_BREEZE_AWAY
                          else if d_breeze d =? BreezeMode_BREEZE_AWAY then BreezeMode_OFF else d_breeze d
              | None => d_breeze d end in
    match pdict_get p PropertyId_BREEZELESS with
    | Some v => if negb (v =? 0) then BreezeMode_BREEZELESS else if b1 =? BreezeMode_BREEZELESS then BreezeMode_OFF else b1
    | None => b1 end
  end.

Lemma update_from_props_breeze d p : d_breeze (update_from_props d p) = breeze_after d p.
Proof.
  unfold update_from_props, breeze_after.
  rewrite (opt_apply_keeps d_breeze) by reflexivity.
  set (d4 := opt_apply (pdict_get p PropertyId_RATE_SELECT) _ _).
  assert (H4 : d_breeze d4 = d_breeze d).
  { unfold d4. repeat (rewrite (opt_apply_keeps d_breeze) by reflexivity). reflexivity. }
  destruct (pdict_get p PropertyId_BREEZE_CONTROL) as [v|]; [reflexivity|].
  destruct (pdict_get p PropertyId_BREEZE_AWAY) as [a|], (pdict_get p PropertyId_BREEZELESS) as [l|];
    cbn [opt_apply]; rewrite ?legacy_breeze_breeze, ?H4; reflexivity.
Qed.

Lemma update_from_props_fields d p :
  d_ieco (update_from_props d p) = match pdict_get p PropertyId_IECO with Some v => negb (v =? 0) | None => d_ieco d end
  /\ d_rate (update_from_props d p) = match pdict_get p PropertyId_RATE_SELECT with
                                       | Some v => get_from_value RateSelect_values RateSelect_DEFAULT v | None => d_rate d end
  /\ d_hangle (update_from_props d p) = match pdict_get p PropertyId_SWING_LR_ANGLE with
                                         | Some v => get_from_value SwingAngle_values SwingAngle_DEFAULT v | None => d_hangle d end
  /\ d_vangle (update_from_props d p) = match pdict_get p PropertyId_SWING_UD_ANGLE with
                                         | Some v => get_from_value SwingAngle_values SwingAngle_DEFAULT v | None => d_vangle d end
  /\ d_self_clean (update_from_props d p) = match pdict_get p PropertyId_SELF_CLEAN with
                                             | Some v => negb (v =? 0) | None => d_self_clean d end.
Proof.
  unfold update_from_props.
  destruct (pdict_get p PropertyId_IECO), (pdict_get p PropertyId_RATE_SELECT), (pdict_get p PropertyId_SWING_LR_ANGLE),
    (pdict_get p PropertyId_SWING_UD_ANGLE), (pdict_get p PropertyId_SELF_CLEAN), (pdict_get p PropertyId_BREEZE_CONTROL);
    cbn [opt_apply]; try (repeat split; reflexivity);
    destruct (pdict_get p PropertyId_BREEZE_AWAY), (pdict_get p PropertyId_BREEZELESS); cbn [opt_apply]; unfold legacy_breeze;
    repeat match goal with |- context [if ?c then _ else _] => destruct c end; repeat split; reflexivity.
Qed.

Lemma store_value_nonempty (s : store) k v : store_ok s -> lookup s k = Some v -> exists b r, v = b :: r.
Proof.
  intros Hs E. apply lookup_in in E. unfold store_ok in Hs. rewrite Forall_forall in Hs. specialize (Hs _ E).
  cbn [fst snd] in Hs. destruct Hs as [_ [[Hl _] _]]. destruct v as [|b r]; [cbn in Hl; lia|eauto].
Qed.

Lemma mem_gfv' vals dflt v : In v vals -> get_from_value vals dflt v = v.
Proof. intros H. unfold get_from_value. apply mem_in in H. unfold Device.mem in *. rewrite H. reflexivity. Qed.

(* C16 read-back: after a refresh answered by the reference appliance (every advertised id queried), each advertised
   setting reads what the reference reading of the appliance's store says *)
Theorem readback d (s : store) ids : store_ok s -> (forall k0, lookup s k0 <> None -> In k0 ids) ->
  let d' := update_from_props d (reported s ids) in
  let v := expected_pview s in
  (forall m r, lookup s ID_FA_NO_WIND = Some (m :: r) -> In m BreezeMode_values ->
      breeze_away d' = pv_breeze_away v /\ breeze_mild d' = pv_breeze_mild v /\ breezeless d' = pv_breezeless v)
  /\ (lookup s ID_FA_NO_WIND = None -> lookup s ID_PREVENT_STRAIGHT <> None -> breeze_away d' = pv_breeze_away v)
  /\ (lookup s ID_FA_NO_WIND = None -> lookup s ID_NO_WIND_SENSE <> None -> breezeless d' = pv_breezeless v)
  /\ (forall x, pv_ieco v = Some x -> d_ieco d' = x)
  /\ (forall x, pv_rate v = Some x -> In x RateSelect_values -> d_rate d' = x)
  /\ (forall x, pv_lr v = Some x -> In x SwingAngle_values -> d_hangle d' = x)
  /\ (forall x, pv_ud v = Some x -> In x SwingAngle_values -> d_vangle d' = x)
  /\ (forall x, pv_self_clean v = Some x -> d_self_clean d' = x).
Proof.
  intros Hs Hall d' v.
  destruct (update_from_props_fields d (reported s ids)) as (Hie & Hra & Hlr & Hud & Hsc).
  pose proof (update_from_props_breeze d (reported s ids)) as Hbr.
  fold d' in Hie, Hra, Hlr, Hud, Hsc, Hbr.
  rewrite !(reported_get s ids _ Hall) in *. unfold breeze_after in Hbr. rewrite !(reported_get s ids _ Hall) in Hbr.
  unfold breeze_away, breeze_mild, breezeless. rewrite Hbr. clear Hbr.
  unfold v, expected_pview. cbn [pv_breeze_away pv_breeze_mild pv_breezeless pv_ieco pv_rate pv_lr pv_ud pv_self_clean].
  unfold seen in *.
  change PropertyId_BREEZE_CONTROL with ID_FA_NO_WIND in *. change PropertyId_BREEZE_AWAY with ID_PREVENT_STRAIGHT in *.
  change PropertyId_BREEZELESS with ID_NO_WIND_SENSE in *. change PropertyId_IECO with ID_IECO in *.
  change PropertyId_RATE_SELECT with ID_RATE_SELECT in *. change PropertyId_SWING_LR_ANGLE with ID_LR_ANGLE in *.
  change PropertyId_SWING_UD_ANGLE with ID_UD_ANGLE in *. change PropertyId_SELF_CLEAN with ID_SELF_CLEAN in *.
  repeat split.
  - rewrite H. cbn [first_byte]. change (decode1 ID_FA_NO_WIND (m :: r)) with (Some m).
    apply mem_in in H0. unfold Device.mem in H0. unfold Device.mem. rewrite H0. reflexivity.
  - rewrite H. cbn [first_byte]. change (decode1 ID_FA_NO_WIND (m :: r)) with (Some m).
    apply mem_in in H0. unfold Device.mem in *. rewrite H0. reflexivity.
  - rewrite H. cbn [first_byte]. change (decode1 ID_FA_NO_WIND (m :: r)) with (Some m).
    apply mem_in in H0. unfold Device.mem in *. rewrite H0. reflexivity.
  - intros Hfa Haw. rewrite Hfa. cbn [first_byte].
    destruct (lookup s ID_PREVENT_STRAIGHT) as [va|] eqn:Ea; [|congruence].
    destruct (store_value_nonempty s _ _ Hs Ea) as (a & ra & ->). cbn [first_byte].
    change (decode1 ID_PREVENT_STRAIGHT (a :: ra)) with (Some (b2n (a =? 2))).
    destruct (lookup s ID_NO_WIND_SENSE) as [vl|] eqn:El.
    + destruct (store_value_nonempty s _ _ Hs El) as (l & rl & ->). cbn [first_byte].
      change (decode1 ID_NO_WIND_SENSE (l :: rl)) with (Some (b2n (negb (l =? 0)))).
      destruct (l =? 0), (a =? 2); cbn [b2n negb N.eqb andb]; try reflexivity;
        unfold BreezeMode_BREEZE_AWAY, BreezeMode_BREEZELESS, BreezeMode_OFF;
        destruct (N.eqb_spec (d_breeze d) 2); try reflexivity;
        destruct (N.eqb_spec (d_breeze d) 4); try reflexivity; try lia;
        destruct (N.eqb_spec (d_breeze d) 2); try reflexivity; lia.
    + cbn [first_byte]. destruct (a =? 2); cbn [b2n negb N.eqb andb]; try reflexivity.
      unfold BreezeMode_BREEZE_AWAY, BreezeMode_OFF. destruct (N.eqb_spec (d_breeze d) 2) as [E|E]; [reflexivity|].
      destruct (N.eqb_spec (d_breeze d) 2); [contradiction|reflexivity].
  - intros Hfa Hnw. rewrite Hfa. cbn [first_byte].
    destruct (lookup s ID_NO_WIND_SENSE) as [vl|] eqn:El; [|congruence].
    destruct (store_value_nonempty s _ _ Hs El) as (l & rl & ->). cbn [first_byte].
    change (decode1 ID_NO_WIND_SENSE (l :: rl)) with (Some (b2n (negb (l =? 0)))).
    destruct (l =? 0); cbn [b2n negb N.eqb]; [|reflexivity].
    match goal with |- (((if ?b1 =? _ then _ else _) =? _) = false) => generalize b1; intros B1 end.
    destruct (N.eqb_spec B1 BreezeMode_BREEZELESS) as [E|E]; [reflexivity|]. apply N.eqb_neq. exact E.
  - intros x Hx. rewrite Hie. destruct (lookup s ID_IECO) as [[|b0 [|b1 r]]|]; cbn [second_byte option_map] in Hx; try discriminate.
    injection Hx as <-. change (decode1 ID_IECO (b0 :: b1 :: r)) with (Some (b2n (negb (b1 =? 0)))).
    destruct (b1 =? 0); reflexivity.
  - intros x Hx Hin. rewrite Hra. destruct (lookup s ID_RATE_SELECT) as [[|b0 r]|]; cbn [first_byte] in Hx; try discriminate.
    injection Hx as <-. change (decode1 ID_RATE_SELECT (b0 :: r)) with (Some b0). apply mem_gfv', Hin.
  - intros x Hx Hin. rewrite Hlr. destruct (lookup s ID_LR_ANGLE) as [[|b0 r]|]; cbn [first_byte] in Hx; try discriminate.
    injection Hx as <-. change (decode1 ID_LR_ANGLE (b0 :: r)) with (Some b0). apply mem_gfv', Hin.
  - intros x Hx Hin. rewrite Hud. destruct (lookup s ID_UD_ANGLE) as [[|b0 r]|]; cbn [first_byte] in Hx; try discriminate.
    injection Hx as <-. change (decode1 ID_UD_ANGLE (b0 :: r)) with (Some b0). apply mem_gfv', Hin.
  - intros x Hx. rewrite Hsc. destruct (lookup s ID_SELF_CLEAN) as [[|b0 r]|]; cbn [first_byte option_map] in Hx; try discriminate.
    injection Hx as <-. change (decode1 ID_SELF_CLEAN (b0 :: r)) with (Some (b2n (negb (b0 =? 0)))).
    destruct (b0 =? 0); reflexivity.
Qed.
