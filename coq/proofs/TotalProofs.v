(* C14: Response.construct is total into {response, InvalidFrame, InvalidResponse} for EVERY byte string, and the
   public operations never raise whatever frames the peer returns. *)
From MS Require Import lib.Base gen.GenConst gen.GenCmd gen.GenDev model.Frame model.Command model.Response model.Device
  proofs.FrameProofs proofs.CommandProofs proofs.ResponseProofs proofs.DeviceProofs.
From RecordUpdate Require Import RecordSet.
Import RecordSetNotations.
From Coq Require Import ZifyBool ZifyN ZifyNat.

(* ---------- the parsers can only fail with IndexError ---------- *)
Lemma idx_err l n e : idx l n = Err e -> e = EIndex.
Proof. unfold idx. destruct (nth_error l n); [discriminate|]. intros H. injection H as <-. reflexivity. Qed.

Lemma idx_neg_err l k e : idx_neg l k = Err e -> e = EIndex.
Proof.
  unfold idx_neg. destruct (Nat.ltb _ _); [intros H; injection H as <-; reflexivity|].
  destruct (Nat.eqb k 0); apply idx_err.
Qed.

Ltac bind_idx H :=
  repeat match type of H with
  | bind (idx ?l ?n) _ = Err _ =>
      let E := fresh "E" in destruct (idx l n) eqn:E; cbn [bind] in H;
      [|injection H as <-; eapply idx_err; eassumption]
  end.

Lemma parse_state_err p e : parse_state p = Err e -> e = EIndex.
Proof.
  unfold parse_state. intros H. bind_idx H.
  destruct (length p <? 20)%nat; [discriminate|]. destruct (length p <? 22)%nat; discriminate.
Qed.

Lemma prop_decode_err pid data e : prop_decode pid data = Err e -> e = EIndex \/ e = ENotImpl.
Proof.
  unfold prop_decode. destruct (negb (pid_supported pid)); [intros H; injection H as <-; right; reflexivity|].
  destruct ((pid =? PropertyId_BREEZELESS) || (pid =? PropertyId_SELF_CLEAN)).
  { intros H. left. bind_idx H. discriminate. }
  destruct (pid =? PropertyId_BREEZE_AWAY). { intros H. left. bind_idx H. discriminate. }
  destruct (pid =? PropertyId_BUZZER); [discriminate|].
  destruct (pid =? PropertyId_IECO). { intros H. left. bind_idx H. discriminate. }
  intros H. left. bind_idx H. discriminate.
Qed.

Lemma parse_props_loop_err count : forall props acc e, parse_props_loop count props acc = Err e -> e = EIndex.
Proof.
  induction count as [|c IH]; intros props acc e; cbn [parse_props_loop]; [discriminate|].
  destruct (length props <? 4)%nat; [discriminate|].
  destruct (nthb props 3 =? 0); [apply IH|].
  destruct (negb (pid_known _)); [apply IH|].
  destruct (prop_decode _ _) as [[v|]|e'] eqn:Ed; try apply IH.
  pose proof (prop_decode_err _ _ _ Ed) as [-> | ->]; [intros H; injection H as <-; reflexivity|apply IH].
Qed.

Lemma parse_props_err p e : parse_props p = Err e -> e = EIndex.
Proof. unfold parse_props. intros H. bind_idx H. eapply parse_props_loop_err; eassumption. Qed.

Lemma caps_step_err caps acc e : caps_step caps acc = Err e -> e = EIndex.
Proof.
  unfold caps_step. destruct (length caps <? 3)%nat; [discriminate|].
  destruct (nthb caps 2 =? 0); [discriminate|]. destruct (negb (capid_known _)); [discriminate|].
  intros H. bind_idx H. destruct (readers_for _ _); [discriminate|].
  destruct (_ =? CapabilityId_TEMPERATURES); [|discriminate].
  destruct (nthb caps 2 <? 6); [discriminate|]. bind_idx H.
  destruct (6 <? nthb caps 2).
  - bind_idx H. discriminate.
  - cbn [bind] in H. discriminate.
Qed.

Lemma caps_loop_err count : forall caps acc e, caps_loop count caps acc = Err e -> e = EIndex.
Proof.
  induction count as [|c IH]; intros caps acc e; cbn [caps_loop]; [discriminate|].
  destruct (caps_step caps acc) as [[[caps' acc']|]|e'] eqn:Es; cbn [bind].
  - apply IH.
  - discriminate.
  - intros H. injection H as <-. eapply caps_step_err; eassumption.
Qed.

Lemma parse_caps_err p e : parse_caps p = Err e -> e = EIndex.
Proof.
  unfold parse_caps. intros H. bind_idx H.
  destruct (caps_loop _ _ _) as [[rest d]|e'] eqn:El; cbn [bind] in H.
  - destruct (1 <? length rest)%nat; discriminate.
  - injection H as <-. eapply caps_loop_err; eassumption.
Qed.

Lemma parse_energy4_err d e : parse_energy4 d = Err e -> e = EIndex.
Proof. unfold parse_energy4. intros H. bind_idx H. discriminate. Qed.
Lemma parse_power3_err d e : parse_power3 d = Err e -> e = EIndex.
Proof. unfold parse_power3. intros H. bind_idx H. discriminate. Qed.

Lemma parse_energy_err p e : parse_energy p = Err e -> e = EIndex.
Proof.
  unfold parse_energy.
  destruct (parse_energy4 (slice p 4 8)) as [[t tb_]|e1] eqn:E1; cbn [bind];
    [|intros H; injection H as <-; eapply parse_energy4_err; eassumption].
  destruct (parse_energy4 (slice p 12 16)) as [[c cb]|e2] eqn:E2; cbn [bind];
    [|intros H; injection H as <-; eapply parse_energy4_err; eassumption].
  destruct (parse_power3 (slice p 16 19)) as [[w wb]|e3] eqn:E3; cbn [bind];
    [discriminate|intros H; injection H as <-; eapply parse_power3_err; eassumption].
Qed.

Lemma parse_humidity_err p e : parse_humidity p = Err e -> e = EIndex.
Proof. unfold parse_humidity. intros H. bind_idx H. discriminate. Qed.

Lemma frame_validate_err f e : frame_validate f = Err e -> e = EIndex \/ e = EInvalidFrame.
Proof.
  unfold frame_validate. destruct (idx_neg f 1) eqn:E; cbn [bind].
  - destruct (_ =? _); [discriminate|]. intros H. injection H as <-. right. reflexivity.
  - intros H. injection H as <-. left. eapply idx_neg_err; eassumption.
Qed.

Lemma classify_err f e : classify f = Err e -> e = EIndex.
Proof.
  unfold classify. intros H. bind_idx H.
  destruct (_ =? ResponseId_STATE); [discriminate|]. destruct (_ && _); [discriminate|].
  destruct (_ || _); [discriminate|]. destruct (_ =? ResponseId_GROUP_DATA); [|discriminate].
  bind_idx H. discriminate.
Qed.

Lemma response_validate_err p e : response_validate p = Err e -> e = EIndex \/ e = EInvalidResponse.
Proof.
  intros H. destruct (response_validate_cases p) as [H1|[H1|[_ H1]]]; rewrite H1 in H; try discriminate;
    injection H as <-; auto.
Qed.

Theorem construct_raw_errs f e : construct_raw f = Err e -> e = EIndex \/ e = EInvalidFrame \/ e = EInvalidResponse.
Proof.
  unfold construct_raw.
  destruct (frame_validate f) as [[]|e1] eqn:E1; cbn [bind];
    [|intros H; injection H as <-; destruct (frame_validate_err _ _ E1); auto].
  destruct (classify f) as [k|e2] eqn:E2; cbn [bind];
    [|intros H; injection H as <-; left; eapply classify_err; eassumption].
  destruct (match k with KProps => Ok tt | _ => response_validate (slice_neg f 10 1) end) as [[]|e3] eqn:E3; cbn [bind].
  2:{ intros H; injection H as <-. destruct k; try discriminate;
      destruct (response_validate_err _ _ E3); auto. }
  destruct (idx (slice_neg f 10 2) 0) as [id|e4] eqn:E4; cbn [bind];
    [|intros H; injection H as <-; left; eapply idx_err; eassumption].
  destruct k.
  - destruct (parse_state _) eqn:Ep; cbn [bind]; [discriminate|]. intros H; injection H as <-. left. eapply parse_state_err; eassumption.
  - destruct (parse_caps _) as [[d more]|] eqn:Ep; cbn [bind]; [discriminate|]. intros H; injection H as <-. left. eapply parse_caps_err; eassumption.
  - destruct (parse_props _) eqn:Ep; cbn [bind]; [discriminate|]. intros H; injection H as <-. left. eapply parse_props_err; eassumption.
  - destruct (parse_energy _) eqn:Ep; cbn [bind]; [discriminate|]. intros H; injection H as <-. left. eapply parse_energy_err; eassumption.
  - destruct (parse_humidity _) eqn:Ep; cbn [bind]; [discriminate|]. intros H; injection H as <-. left. eapply parse_humidity_err; eassumption.
  - discriminate.
Qed.

(* Response.construct on EVERY byte string: a response, InvalidFrameException or InvalidResponseException *)
Theorem construct_total f :
  (exists r, construct f = Ok r) \/ construct f = Err EInvalidFrame \/ construct f = Err EInvalidResponse.
Proof.
  unfold construct, catch. destruct (construct_raw f) as [r|e] eqn:E; [left; eexists; reflexivity|].
  right. destruct (construct_raw_errs f e E) as [-> | [-> | ->]]; cbn; auto.
Qed.

(* hence an exchange delivers exactly the decodable frames, in order, and never raises *)
Theorem valid_responses_total frames : valid_responses frames = Ok (flat_map accepted_of frames).
Proof.
  apply valid_responses_filter. apply Forall_forall. intros f _.
  destruct (construct_total f) as [[r ->]|[-> | ->]]; auto.
Qed.

(* ---------- operations ---------- *)
(* caller-side well-formedness: attribute values the user may have set fit one byte (otherwise Python's bytes() raises
   ValueError before anything is sent - not a device response) and the id sets are small *)
Definition dev_wf (d : dev) : Prop :=
  d_fan d < 256 /\ d_hangle d < 256 /\ d_vangle d < 256 /\ d_rate d < 256 /\ d_breeze d < 256
  /\ (length (d_sup_props d) <= 120)%nat /\ (length (d_upd_props d) <= 14)%nat.

Section OpsTotal.
  Variable P : Type.
  Variable peer : P -> bytes -> P * list bytes.

  Lemma send_ok w c : encodable c = true ->
    exists p' n' rs, send_get_responses peer w c =
      (mkWorld (w_dev w <| d_supported := negb (Nat.eqb (length rs) 0) |>) p' n' (w_sent w ++ [c]), Ok rs).
  Proof.
    intros He. unfold send_get_responses. destruct (emit_succeeds (w_counter w) c He) as [f ->].
    destruct (peer (w_peer w) f) as [p' frames]. rewrite valid_responses_total.
    eexists; eexists; eexists. reflexivity.
  Qed.

  Lemma send_all_ok cs : Forall (fun c => encodable c = true) cs ->
    forall w, exists w' rs, send_all peer w cs = (w', Ok rs).
  Proof.
    induction 1 as [|c t Hc _ IH]; intros w; cbn [send_all]; [eexists; eexists; reflexivity|].
    destruct (send_ok w c Hc) as (p' & n' & rs & ->).
    destruct (IH (mkWorld (w_dev w <| d_supported := negb (Nat.eqb (length rs) 0) |>) p' n' (w_sent w ++ [c])))
      as (w2 & rest & ->).
    eexists; eexists; reflexivity.
  Qed.

  Theorem refresh_never_raises w : (length (d_sup_props (w_dev w)) <= 120)%nat -> snd (refresh peer w) = None.
  Proof.
    intros Hl. unfold refresh. destruct (refresh_cmds_encodable (w_dev w) Hl) as [He _].
    destruct (send_all_ok _ He w) as (w' & rs & ->). reflexivity.
  Qed.

  Theorem toggle_display_never_raises w : (length (d_sup_props (w_dev w)) <= 120)%nat -> snd (toggle_display peer w) = None.
  Proof.
    intros Hl. unfold toggle_display.
    destruct (send_ok w (ToggleDisplay (d_beep (w_dev w)))) as (p' & n' & rs & ->).
    { destruct (d_beep (w_dev w)); vm_compute; reflexivity. }
    apply refresh_never_raises. cbn [w_dev]. destruct (w_dev w). exact Hl.
  Qed.

  Lemma buzzer_kvs_ok beep kvs : (length kvs <= 14)%nat ->
    Forall (fun kv => pid_supported (fst kv) = true /\ snd kv < 256) kvs ->
    encodable (SetProps (kvs ++ [(PropertyId_BUZZER, b2n beep)])) = true.
  Proof.
    intros Hl Hall. apply encodable_set_props.
    - rewrite app_length. cbn [length]. lia.
    - apply Forall_app. split; [exact Hall|]. constructor; [|constructor].
      cbn [fst snd]. split; [vm_compute; reflexivity|destruct beep; cbn; lia].
  Qed.

  Theorem apply_properties_never_raises w kvs : (length kvs <= 14)%nat ->
    Forall (fun kv => pid_supported (fst kv) = true /\ snd kv < 256) kvs ->
    snd (apply_properties peer w kvs) = None.
  Proof.
    intros Hl Hall. unfold apply_properties.
    destruct (send_ok w _ (buzzer_kvs_ok (d_beep (w_dev w)) kvs Hl Hall)) as (p' & n' & rs & ->). reflexivity.
  Qed.

  Theorem start_self_clean_never_raises w : snd (start_self_clean peer w) = None.
  Proof.
    unfold start_self_clean. apply apply_properties_never_raises; [cbn; lia|].
    constructor; [|constructor]. cbn [fst snd]. split; [vm_compute; reflexivity|lia].
  Qed.

  Theorem get_capabilities_never_raises w : snd (get_capabilities peer w) = None.
  Proof.
    unfold get_capabilities.
    destruct (send_ok w (GetCaps false) eq_refl) as (p' & n' & rs & ->).
    destruct (first_caps rs) as [[i s|i c more|i d|i e|i h|i]|]; try reflexivity.
    destruct more; [|reflexivity].
    match goal with |- context [send_get_responses peer ?w1 (GetCaps true)] =>
      destruct (send_ok w1 (GetCaps true) eq_refl) as (p2 & n2 & rs2 & ->) end.
    destruct (first_caps rs2) as [[i2 s2|i2 c2 more2|i2 d2|i2 e2|i2 h2|i2]|]; reflexivity.
  Qed.

  (* property values after any responses still fit one byte *)
  Definition props_small (d : dev) : Prop :=
    d_hangle d < 256 /\ d_vangle d < 256 /\ d_rate d < 256 /\ d_breeze d < 256.

  Lemma gfv_small vals dflt v : forallb (fun x => x <? 256) vals = true -> dflt < 256 ->
    get_from_value vals dflt v < 256.
  Proof.
    intros Hv Hd. unfold get_from_value, mem. destruct (existsb (N.eqb v) vals) eqn:E; [|exact Hd].
    rewrite existsb_exists in E. destruct E as [x [Hin Hx]]. apply N.eqb_eq in Hx. subst x.
    rewrite forallb_forall in Hv. specialize (Hv v Hin). lia.
  Qed.

  Definition inv (n : nat) (d : dev) : Prop := props_small d /\ length (d_upd_props d) = n.

  Lemma inv_hangle n d v : inv n d -> v < 256 -> inv n (d <| d_hangle := v |>).
  Proof. intros [(H1 & H2 & H3 & H4) Hn] Hv. destruct d. split; [repeat split; assumption|exact Hn]. Qed.
  Lemma inv_vangle n d v : inv n d -> v < 256 -> inv n (d <| d_vangle := v |>).
  Proof. intros [(H1 & H2 & H3 & H4) Hn] Hv. destruct d. split; [repeat split; assumption|exact Hn]. Qed.
  Lemma inv_rate n d v : inv n d -> v < 256 -> inv n (d <| d_rate := v |>).
  Proof. intros [(H1 & H2 & H3 & H4) Hn] Hv. destruct d. split; [repeat split; assumption|exact Hn]. Qed.
  Lemma inv_breeze n d v : inv n d -> v < 256 -> inv n (d <| d_breeze := v |>).
  Proof. intros [(H1 & H2 & H3 & H4) Hn] Hv. destruct d. split; [repeat split; assumption|exact Hn]. Qed.
  Lemma inv_self_clean n d b : inv n d -> inv n (d <| d_self_clean := b |>).
  Proof. intros [(H1 & H2 & H3 & H4) Hn]. destruct d. split; [repeat split; assumption|exact Hn]. Qed.
  Lemma inv_ieco n d b : inv n d -> inv n (d <| d_ieco := b |>).
  Proof. intros [(H1 & H2 & H3 & H4) Hn]. destruct d. split; [repeat split; assumption|exact Hn]. Qed.

  Lemma inv_legacy n d own v : inv n d -> own < 256 -> inv n (legacy_breeze own v d).
  Proof.
    intros H Ho. unfold legacy_breeze. destruct (negb (v =? 0)); [apply inv_breeze; assumption|].
    destruct (d_breeze d =? own); [apply inv_breeze; [exact H|vm_compute; reflexivity]|exact H].
  Qed.

  Lemma breeze_val_small v : (if mem v BreezeMode_values then v else BreezeMode_OFF) < 256.
  Proof.
    unfold mem. destruct (existsb (N.eqb v) BreezeMode_values) eqn:E; [|vm_compute; reflexivity].
    rewrite existsb_exists in E. destruct E as [x [Hin Hx]]. apply N.eqb_eq in Hx. subst x.
    assert (H : forallb (fun x => x <? 256) BreezeMode_values = true) by (vm_compute; reflexivity).
    rewrite forallb_forall in H. specialize (H v Hin). lia.
  Qed.

  Lemma update_from_props_inv n d p : inv n d -> inv n (update_from_props d p).
  Proof.
    intros H. unfold update_from_props, opt_apply.
    destruct (pdict_get p PropertyId_SWING_LR_ANGLE);
      [apply inv_hangle with (v := get_from_value SwingAngle_values SwingAngle_DEFAULT n0) in H;
       [|apply gfv_small; vm_compute; reflexivity]|].
    all: destruct (pdict_get p PropertyId_SWING_UD_ANGLE) as [v1|];
      [apply inv_vangle with (v := get_from_value SwingAngle_values SwingAngle_DEFAULT v1) in H;
       [|apply gfv_small; vm_compute; reflexivity]|].
    all: destruct (pdict_get p PropertyId_SELF_CLEAN) as [v2|];
      [apply inv_self_clean with (b := negb (v2 =? 0)) in H|].
    all: destruct (pdict_get p PropertyId_RATE_SELECT) as [v3|];
      [apply inv_rate with (v := get_from_value RateSelect_values RateSelect_DEFAULT v3) in H;
       [|apply gfv_small; vm_compute; reflexivity]|].
    all: destruct (pdict_get p PropertyId_BREEZE_CONTROL) as [v4|];
      [apply inv_breeze with (v := if mem v4 BreezeMode_values then v4 else BreezeMode_OFF) in H; [|apply breeze_val_small]
      |destruct (pdict_get p PropertyId_BREEZE_AWAY) as [v5|];
        [apply inv_legacy with (own := BreezeMode_BREEZE_AWAY) (v := v5) in H; [|vm_compute; reflexivity]|];
       (destruct (pdict_get p PropertyId_BREEZELESS) as [v6|];
        [apply inv_legacy with (own := BreezeMode_BREEZELESS) (v := v6) in H; [|vm_compute; reflexivity]|])].
    all: destruct (pdict_get p PropertyId_IECO) as [v7|]; [apply inv_ieco with (b := negb (v7 =? 0)) in H|]; exact H.
  Qed.

  Lemma update_state_inv n d r : inv n d -> inv n (update_state d r).
  Proof.
    intros H. destruct r as [i s|i c more|i p|i e|i h|i]; cbn [update_state]; try exact H.
    apply update_from_props_inv. exact H.
  Qed.

  Lemma fold_update_inv n rs : forall d, inv n d -> inv n (fold_left update_state rs d).
  Proof. induction rs as [|r t IH]; intros d H; cbn [fold_left]; [exact H|]. apply IH, update_state_inv, H. Qed.

  Lemma filter_len_le {A} (f : A -> bool) l : (length (filter f l) <= length l)%nat.
  Proof. induction l as [|x l IH]; cbn [filter length]; [lia|]. destruct (f x); cbn [length]; lia. Qed.

  Lemma property_value_small d k : props_small d -> property_value d k < 256.
  Proof.
    intros (H1 & H2 & H3 & H4). unfold property_value.
    destruct (k =? PropertyId_BREEZE_AWAY); [destruct (_ =? _); cbn; lia|].
    destruct (k =? PropertyId_BREEZE_CONTROL); [exact H4|].
    destruct (k =? PropertyId_BREEZELESS); [destruct (_ =? _); cbn; lia|].
    destruct (k =? PropertyId_IECO); [destruct (d_ieco d); cbn; lia|].
    destruct (k =? PropertyId_RATE_SELECT); [exact H3|].
    destruct (k =? PropertyId_SWING_LR_ANGLE); [exact H1|exact H2].
  Qed.

  Theorem apply_never_raises w : dev_wf (w_dev w) -> snd (apply_op peer w) = None.
  Proof.
    intros (Hfan & Hh & Hv & Hr & Hb & Hsp & Hup). unfold apply_op.
    destruct (send_ok w (SetState (apply_ctrl (w_dev w)))) as (p' & n' & rs & ->).
    { apply encodable_set_state. exact Hfan. }
    set (d1 := w_dev w <| d_supported := negb (Nat.eqb (length rs) 0) |>).
    assert (Hinv1 : inv (length (d_upd_props (w_dev w))) d1).
    { unfold d1. destruct (w_dev w). split; [repeat split; assumption|reflexivity]. }
    pose proof (fold_update_inv _ rs d1 Hinv1) as [Hsmall Hlen].
    unfold upd_dev. cbn [w_dev w_peer w_counter w_sent].
    destruct (d_upd_props (fold_left update_state rs d1)) as [|u us] eqn:Eu; [reflexivity|].
    match goal with |- context [apply_properties peer ?w2 ?kvs] =>
      pose proof (apply_properties_never_raises w2 kvs) as Hap;
      destruct (apply_properties peer w2 kvs) as [w3 [e|]] eqn:Ea end.
    - cbn [snd] in Hap. rewrite Hap; [reflexivity| |].
      + rewrite map_length. etransitivity; [apply filter_len_le|]. rewrite Hlen. exact Hup.
      + apply Forall_forall. intros [k v] Hin. apply in_map_iff in Hin. destruct Hin as [k' [Hkv Hin]].
        injection Hkv as <- <-. apply filter_In in Hin. destruct Hin as [_ Hmem]. cbn [fst snd]. split.
        * assert (Hall : forallb pid_supported PROPERTY_MAP_keys = true) by (vm_compute; reflexivity).
          rewrite forallb_forall in Hall. apply Hall. unfold mem in Hmem. rewrite existsb_exists in Hmem.
          destruct Hmem as [x [Hx Hxe]]. apply N.eqb_eq in Hxe. subst x. exact Hx.
        * apply property_value_small. cbn [w_dev]. exact Hsmall.
    - reflexivity.
  Qed.
End OpsTotal.
