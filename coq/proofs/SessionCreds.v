(* LAN.authenticate with credentials the appliance does not accept never returns normally, whatever the state of the session *)
From MS Require Import lib.Base gen.GenLan model.Session proofs.SessionProofs proofs.SessionHoare.
Local Open Scope N_scope.

(* fails m: m never returns normally *)
Definition fails {A} (m : M A) : Prop := forall w a w', m w <> (Ok a, w').
Lemma fails_raise {A} e : fails (@raise A e). Proof. intros w a w' H. discriminate. Qed.
Lemma fails_bind_l {A B} (m : M A) (f : A -> M B) : fails m -> fails (mbind m f).
Proof. intros Hm w b w' H. apply mbind_inv_ok in H as (a & w1 & H1 & _). exact (Hm _ _ _ H1). Qed.
Lemma fails_bind_r {A B} (m : M A) (f : A -> M B) : (forall a, fails (f a)) -> fails (mbind m f).
Proof. intros Hf w b w' H. apply mbind_inv_ok in H as (a & w1 & _ & H2). exact (Hf _ _ _ _ H2). Qed.
Lemma fails_catch {A} (m : M A) cs h : fails m -> (forall e, fails (h e)) -> fails (mcatch m cs h).
Proof.
  intros Hm Hh w a w' H. unfold mcatch in H. destruct (m w) as [[x|e] w1] eqn:Hmw; [exact (Hm _ _ _ Hmw)|].
  destruct (existsb (subclass e) cs); [exact (Hh _ _ _ _ H)|discriminate].
Qed.

Lemma as_hs_wrong p : exists e, as_hs false p = Err e.
Proof. destruct p; cbn; eauto. Qed.
Lemma proto_auth_wrong_fails : fails (proto_authenticate (Some false)).
Proof.
  unfold proto_authenticate. apply fails_bind_r. intros _. apply fails_bind_r. intros p.
  destruct (as_hs_wrong p) as [e He]. rewrite He. apply fails_raise.
Qed.
Lemma proto_auth_none_fails : fails (proto_authenticate None).
Proof. apply fails_raise. Qed.
Lemma auth_loop_fails creds r : fails (proto_authenticate creds) -> fails (auth_loop (S r) creds).
Proof.
  intros Hp. induction r as [|r IH]; cbn [auth_loop] in *.
  - apply fails_catch; [exact Hp|]. intros e. apply fails_raise.
  - apply fails_catch; [exact Hp|]. intros e. exact IH.
Qed.
(* LAN.authenticate with a token/key pair the appliance does not accept (or with none at all) never returns normally - whatever the
   state of the session: not connected, connected, already authenticated with other credentials, expired, mid-failure *)
Theorem wrong_credentials_never_authenticate r : fails (lan_authenticate (Some false) (S r)).
Proof.
  unfold lan_authenticate. apply fails_bind_r. intros w0. apply fails_bind_r. intros al. apply fails_bind_r. intros w1.
  apply fails_bind_r. intros _. apply fails_bind_l. apply auth_loop_fails, proto_auth_wrong_fails.
Qed.
Theorem no_credentials_never_authenticate r w : l_creds (w_lan w) = None -> forall a w', lan_authenticate None (S r) w <> (Ok a, w').
Proof.
  intros Hc a w' H. unfold lan_authenticate in H. apply mbind_inv_ok in H as (w0 & w0' & H0 & H). cbv [get] in H0. injection H0 as <- <-.
  rewrite Hc in H. revert H.
  assert (F : fails (dom al <- lan_alive; dom w1 <- get;
    (if negb al || negb match l_proto (w_lan w1) with Some c => c_v3 c | None => false end
     then lan_disconnect;; set_lan (fun l => mkLan (l_proto l) true (l_creds l) (l_cexp l) (l_maxlife l));; lan_connect else ret tt);;
    auth_loop (S r) None;; dom a0 <- authenticated; (if a0 then ret tt else raise EAssert);;
    set_lan (fun l => mkLan (l_proto l) (l_v3 l) None (l_cexp l) (l_maxlife l));; dom w2 <- get; advance_to (w_now w2 + 1000))).
  { apply fails_bind_r. intros al. apply fails_bind_r. intros w1. apply fails_bind_r. intros _. apply fails_bind_l.
    apply auth_loop_fails, proto_auth_none_fails. }
  apply F.
Qed.
Theorem dev_wrong_credentials_raise_auth w : fst (dev_authenticate false w) = Err EAuth.
Proof.
  destruct (dev_authenticate false w) as [[u|e] w'] eqn:H; cbn [fst].
  - exfalso. revert H. unfold dev_authenticate. apply fails_catch; [|intros e; apply fails_raise].
    change (N.to_nat LAN_RETRIES) with (S (pred (N.to_nat LAN_RETRIES))). apply wrong_credentials_never_authenticate.
  - f_equal. apply (dev_authenticate_contained false w e). rewrite H. reflexivity.
Qed.
