(* Model of msmart/discover.py: version dispatch, reply parsing, per-datagram handling and the gathered result.
   Offsets, markers, ports and the exception classes each handler catches come from gen/GenDisc.v, which is
   regenerated from the AST of the source on every run.  Two library calls are classified by the harness and
   enter as inputs: whether xml.etree accepts the datagram (and which V1 sub-case applies).  UTF-8 validity,
   str.split and int(_, 16) are modelled here on bytes (non-ASCII digits / spaces of int() are outside the model). *)
From MS Require Import lib.Base gen.GenConst gen.GenDisc model.Lan.
Open Scope N_scope.

(* ---------- bytes.decode() : strict UTF-8 ---------- *)
Definition cont (b : N) : bool := (128 <=? b) && (b <=? 191).
Fixpoint utf8_valid (l : bytes) : bool :=
  match l with
  | [] => true
  | b :: t =>
    if b <? 128 then utf8_valid t
    else if (194 <=? b) && (b <=? 223) then
      match t with c :: t' => cont c && utf8_valid t' | _ => false end
    else if (224 <=? b) && (b <=? 239) then
      match t with
      | c :: d :: t' =>
        (if b =? 224 then (160 <=? c) && (c <=? 191) else if b =? 237 then (128 <=? c) && (c <=? 159) else cont c)
        && cont d && utf8_valid t'
      | _ => false end
    else if (240 <=? b) && (b <=? 244) then
      match t with
      | c :: d :: e :: t' =>
        (if b =? 240 then (144 <=? c) && (c <=? 191) else if b =? 244 then (128 <=? c) && (c <=? 143) else cont c)
        && cont d && cont e && utf8_valid t'
      | _ => false end
    else false
  end.
Definition decode_utf8 (l : bytes) : res bytes := if utf8_valid l then Ok l else Err EUnicode.

(* ---------- str.split("_") ---------- *)
Fixpoint split_on (sep : N) (l : bytes) (cur : bytes) : list bytes :=
  match l with
  | [] => [rev cur]
  | b :: t => if b =? sep then rev cur :: split_on sep t [] else split_on sep t (b :: cur)
  end.
Definition split_us (l : bytes) : list bytes := split_on 95 l [].

(* ---------- int(s, 16) on ASCII ---------- *)
Definition is_space (b : N) : bool := ((9 <=? b) && (b <=? 13)) || (b =? 32).
Fixpoint lstrip (l : bytes) : bytes :=
  match l with b :: t => if is_space b then lstrip t else l | [] => [] end.
Definition strip (l : bytes) : bytes := rev (lstrip (rev (lstrip l))).
Definition hexval (b : N) : option N :=
  if (48 <=? b) && (b <=? 57) then Some (b - 48)
  else if (97 <=? b) && (b <=? 102) then Some (b - 87)
  else if (65 <=? b) && (b <=? 70) then Some (b - 55)
  else None.
(* digits with single underscores between them; [n] counts digits; a trailing underscore is an error *)
Fixpoint hexdigits (l : bytes) (prev_us : bool) (acc : N) (n : nat) : option N :=
  match l with
  | [] => if prev_us then None else match n with O => None | _ => Some acc end
  | b :: t =>
    if b =? 95 then (if prev_us then None else hexdigits t true acc n)
    else match hexval b with Some d => hexdigits t false (16 * acc + d) (S n) | None => None end
  end.
Definition parse_int16 (s : bytes) : res Z :=
  let s := strip s in
  let '(neg, s) := match s with
                   | 43 :: t => (false, t)
                   | 45 :: t => (true, t)
                   | _ => (false, s) end in
  let s := match s with
           | 48 :: x :: t => if (x =? 120) || (x =? 88) then (match t with 95 :: t' => t' | _ => t end) else s
           | _ => s end in
  match s with
  | 95 :: _ => Err EValue
  | _ => match hexdigits s false 0 0 with
         | Some v => Ok (if neg then (- Z.of_N v)%Z else Z.of_N v)
         | None => Err EValue
         end
  end.

(* ---------- Discover._get_device_version ---------- *)
(* xml = 0: ET.fromstring raises ParseError; otherwise the datagram is XML (a V1 reply) *)
Definition get_device_version (xml : N) (data : bytes) : res N :=
  if negb (xml =? 0) then Ok 1
  else
    let s := firstn 2 data in
    if beqb s DISC_MARK_V2 then Ok 2 else if beqb s DISC_MARK_V3 then Ok 3 else Err EDiscover.

(* ---------- Discover._get_device_info ---------- *)
Record info := mkInfo { i_ip : N; i_port : N; i_id : N; i_name : bytes; i_sn : bytes; i_type : Z; i_version : N }.

(* the part after decryption *)
Definition parse_payload (ip version device_id : N) (dec : bytes) : res info :=
  (* ipaddress.IPv4Address(decrypted_mv[3::-1].tobytes()) : exactly four bytes or AddressValueError *)
  do _ <- (if Nat.eqb (length (firstn (S DISC_IP_FROM) dec)) 4 then Ok tt else Err EAddr);
  let port := from_le (slice dec DISC_PORT_LO DISC_PORT_HI) in
  do sn <- decode_utf8 (slice dec DISC_SN_LO DISC_SN_HI);
  do name_length <- idx dec DISC_NAMELEN_AT;
  do name <- decode_utf8 (slice dec DISC_NAME_LO (DISC_NAME_LO + N.to_nat name_length));
  do tok <- match nth_error (split_us name) 1 with Some t => Ok t | None => Err EIndex end;
  do ty <- parse_int16 tok;
  Ok (mkInfo ip port device_id name sn ty version).

Definition get_device_info_v23 (ip version : N) (data : bytes) : res info :=
  let data := if version =? 3 then slice_neg data DISC_STRIP_LO DISC_STRIP_TAIL else data in
  let encrypted := slice_neg data DISC_ENC_LO DISC_ENC_TAIL in
  let device_id := from_le (slice data DISC_ID_LO DISC_ID_HI) in
  do dec <- catch (decrypt_aes encrypted) DISC_DECRYPT_CONVERTS (fun _ => Err EDiscover);
  catch (parse_payload ip version device_id dec) DISC_PARSE_CONVERTS (fun _ => Err EDiscover).

(* V1: the XML sub-case is classified by the harness with the same library calls:
   1 no body/device element, 2 no port attribute, 3 port not an integer, 4 queried over TCP (never supported) *)
Definition get_device_info_v1 (xml : N) : res info :=
  match xml with
  | 1 => Err EDiscover
  | 2 => Err EKey
  | 3 => Err EValue
  | _ => Err ENotImpl
  end.

Definition get_device_info (ip version xml : N) (data : bytes) : res info :=
  if version =? 1 then get_device_info_v1 xml else get_device_info_v23 ip version data.

Definition is_ac (ty : Z) : bool := (ty =? Z.of_N DeviceType_AIR_CONDITIONER)%Z.

(* Discover._get_device with auto_connect off *)
Definition get_device (ip version xml : N) (data : bytes) : res (option info) :=
  catch (do i <- get_device_info ip version xml data; Ok (Some i)) DISC_GET_DEVICE_CATCHES (fun _ => Ok None).

(* ---------- datagram handling ---------- *)
Record dgram := mkDgram { g_ip : N; g_port : N; g_xml : N; g_data : bytes }.
Record task := mkTask { t_ip : N; t_version : N; t_xml : N; t_data : bytes }.
Record dstate := mkDstate { seen : list N; tasks : list task }.
Definition dstate0 : dstate := mkDstate [] [].

Definition mem (x : N) (l : list N) : bool := existsb (N.eqb x) l.

Definition datagram_received (s : dstate) (g : dgram) : dstate :=
  if mem (g_ip g) (seen s) then s
  else
    let s1 := mkDstate (g_ip g :: seen s) (tasks s) in
    match catch (do v <- get_device_version (g_xml g) (g_data g); Ok (Some v)) DISC_VERSION_CATCHES (fun _ => Ok None) with
    | Ok (Some v) => mkDstate (seen s1) (tasks s1 ++ [mkTask (g_ip g) v (g_xml g) (g_data g)])
    | Ok None => s1
    | Err _ => s1          (* an exception other than DiscoverError in a protocol callback is swallowed by the loop *)
    end.

Definition run_task (t : task) : res (option info) := get_device (t_ip t) (t_version t) (t_xml t) (t_data t).

(* asyncio.gather without return_exceptions: every result, or the exception of a failed task *)
Fixpoint gather (ts : list task) : res (list info) :=
  match ts with
  | [] => Ok []
  | t :: rest =>
    do r <- run_task t;
    do l <- gather rest;
    Ok (match r with Some i => i :: l | None => l end)
  end.

Definition discover (ds : list dgram) : res (list info) :=
  gather (tasks (fold_left datagram_received ds dstate0)).

(* what the probe loop sends: (port, message) in order *)
Definition probes (discovery_packets : nat) : list (N * bytes) :=
  flat_map (fun p => repeat (p, DISCOVERY_MSG) discovery_packets) DISCOVERY_PORTS.
