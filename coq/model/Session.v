(* Symbolic model of the session logic of msmart/lan.py (LAN, _LanProtocol, _LanProtocolV3 bookkeeping) and of the
   Device wrappers of msmart/base_device.py, as a deterministic function of (state, operation, scripted environment,
   virtual clock). Packets are symbolic: what the byte-level codecs make of them is proved in proofs/LanV*Proofs.v and
   proofs/ContainProofs.v; here only the outcome class of reading a packet matters. Definitions only. *)
From MS Require Import lib.Base gen.GenLan.
Local Open Scope N_scope.

(* ---------------- the environment ---------------- *)
Inductive cout := ConnOk | ConnRefused | ConnHang.
(* what the peer does in answer to one write it receives *)
Inductive ritem :=
| RFrame (f : N)      (* a valid response carrying AC frame f (on V3: encrypted under the peer's session key) *)
| RHsOk               (* a genuine handshake reply under the device's key (fresh nonce) *)
| RHsBad              (* a handshake-typed reply that does not prove the key *)
| RErr                (* error packet / garbage: anything the read path rejects *)
| RClose.             (* the peer closes the connection *)
Definition reply := list (N * ritem).           (* (delay in ms, item) *)

(* packets in flight / queued, resolved at the time the peer sent them *)
Inductive pkt :=
| PFrame (f : N) (kid : nat)     (* encrypted under session key number kid (V2: kid ignored) *)
| PHsOk (kid : nat)              (* establishes session key number kid *)
| PHsBad
| PErr
| PClose.

Record conn := mkConn {
  c_id : nat; c_v3 : bool; c_closing : bool;
  c_pid : N;                       (* _packet_id *)
  c_key : option nat;              (* _local_key (as the number of the handshake that produced it) *)
  c_lexp : option N;               (* _local_key_expiration, ms *)
  c_q : list pkt;                  (* asyncio queue of received packets *)
  c_in : list (N * pkt);           (* in flight: (arrival time, packet), in scheduling order *)
  c_peerkey : option nat           (* peer side: session key of the last genuine handshake reply it sent *)
}.

Record lan := mkLan {
  l_proto : option conn;
  l_v3 : bool;                     (* _protocol_version == 3 *)
  l_creds : option bool;           (* cached (token, key): Some true = the device's, Some false = wrong key *)
  l_cexp : option N;               (* _connection_expiration *)
  l_maxlife : option N             (* _max_connection_lifetime, ms *)
}.

Inductive event :=
| EvConnect (cid : nat) (v3 : bool)
| EvHs (cid : nat) (pid : N) (good : bool)             (* handshake request written (good = carries the device's token) *)
| EvData (cid : nat) (pid : N) (kid : nat) (frame : N)  (* V3 data request written under session key kid *)
| EvData2 (cid : nat) (frame : N)                      (* V2 data request (no counter, no session key) *)
| EvAuthOk (cid : nat) (kid : nat)                     (* the client accepted handshake reply number kid *)
| EvClose (cid : nat).

Record world := mkWorld {
  w_lan : lan; w_now : N;
  w_conns : list cout;
  w_hsr : list reply; w_replies : list reply;    (* scripts: answers to handshake requests / to data requests, consumed in order *)
  w_ncid : nat; w_nkid : nat;
  w_log : list event
}.

Definition lan_init : lan := mkLan None false None None None.
Definition world_init (conns : list cout) (hsr replies : list reply) : world :=
  mkWorld lan_init 0 conns hsr replies 0 1 [].

(* ---------------- state + exception monad ---------------- *)
Definition M (A : Type) := world -> res A * world.
Definition ret {A} (a : A) : M A := fun w => (Ok a, w).
Definition raise {A} (e : exn) : M A := fun w => (Err e, w).
Definition mbind {A B} (m : M A) (f : A -> M B) : M B :=
  fun w => match m w with (Ok a, w') => f a w' | (Err e, w') => (Err e, w') end.
Notation "'dom' x <- m ; k" := (mbind m (fun x => k)) (at level 200, x name, m at level 100, k at level 200).
Notation "m1 ;; m2" := (mbind m1 (fun _ => m2)) (at level 100, right associativity).
(* try: m  except classes cs: h *)
Definition mcatch {A} (m : M A) (cs : list exn) (h : exn -> M A) : M A :=
  fun w => match m w with
           | (Err e, w') => if existsb (subclass e) cs then h e w' else (Err e, w')
           | r => r
           end.
Definition get : M world := fun w => (Ok w, w).
Definition put (w : world) : M unit := fun _ => (Ok tt, w).
Definition upd (f : world -> world) : M unit := fun w => (Ok tt, f w).

Definition set_lan (f : lan -> lan) : M unit :=
  upd (fun w => mkWorld (f (w_lan w)) (w_now w) (w_conns w) (w_hsr w) (w_replies w) (w_ncid w) (w_nkid w) (w_log w)).
Definition set_conn (f : conn -> conn) : M unit :=
  set_lan (fun l => mkLan (option_map f (l_proto l)) (l_v3 l) (l_creds l) (l_cexp l) (l_maxlife l)).
Definition log (e : event) : M unit :=
  upd (fun w => mkWorld (w_lan w) (w_now w) (w_conns w) (w_hsr w) (w_replies w) (w_ncid w) (w_nkid w) (w_log w ++ [e])).

(* ---------------- time and delivery ---------------- *)
(* deliver to the connection everything in flight that has arrived by time t; a close drops the rest *)
Fixpoint deliver (t : N) (inflight : list (N * pkt)) (q : list pkt) (closing : bool) : list (N * pkt) * list pkt * bool :=
  match inflight with
  | [] => ([], q, closing)
  | (a, p) :: rest =>
    if closing then ([], q, true)
    else if a <? t then               (* strictly before: a timer due at t fires before data scheduled for t *)
      match p with
      | PClose => ([], q, true)
      | _ => deliver t rest (q ++ [p]) closing
      end
    else ((a, p) :: rest, q, closing)
  end.

Definition conn_deliver (t : N) (c : conn) : conn :=
  let '(r, q, cl) := deliver t (c_in c) (c_q c) (c_closing c) in
  mkConn (c_id c) (c_v3 c) cl (c_pid c) (c_key c) (c_lexp c) q r (c_peerkey c).

(* the reader is woken by the first packet in flight: exactly that packet is delivered *)
Definition conn_deliver_head (c : conn) : conn :=
  match c_in c with
  | (a, p) :: rest => mkConn (c_id c) (c_v3 c) (c_closing c) (c_pid c) (c_key c) (c_lexp c) (c_q c ++ [p]) rest (c_peerkey c)
  | [] => c
  end.

(* let virtual time pass: the clock moves to t and the loop delivers what arrived meanwhile *)
Definition advance_to (t : N) : M unit :=
  upd (fun w => mkWorld (w_lan w) t (w_conns w) (w_hsr w) (w_replies w) (w_ncid w) (w_nkid w) (w_log w)) ;;
  set_conn (conn_deliver t).

(* ---------------- _LanProtocol / _LanProtocolV3 ---------------- *)
Definition the_conn : M conn :=
  dom w <- get; match l_proto (w_lan w) with Some c => ret c | None => raise EAssert end.

(* the peer's answer to a write: resolve the scripted items against its session state, schedule them *)
Definition resolve (now : N) (kid : nat) (peerkey : option nat) (r : reply) : list (N * pkt) * option nat * nat :=
  fold_left (fun '(acc, pk, k) '(d, it) =>
    match it with
    | RFrame f => (acc ++ [(now + d, match pk with Some x => PFrame f x | None => PErr end)], pk, k)
    | RHsOk => (acc ++ [(now + d, PHsOk k)], Some k, S k)
    | RHsBad => (acc ++ [(now + d, PHsBad)], pk, k)
    | RErr => (acc ++ [(now + d, PErr)], pk, k)
    | RClose => (acc ++ [(now + d, PClose)], pk, k)
    end) r ([], peerkey, kid).

(* in-flight packets are kept in arrival order (ties: scheduling order) *)
Fixpoint insert_sched (x : N * pkt) (l : list (N * pkt)) : list (N * pkt) :=
  match l with
  | [] => [x]
  | y :: t => if fst x <? fst y then x :: y :: t else y :: insert_sched x t
  end.
Definition schedule (items : list (N * pkt)) (l : list (N * pkt)) : list (N * pkt) :=
  fold_left (fun acc x => insert_sched x acc) items l.

Inductive wkind := WHs (good : bool) | WData (frame : N).

(* write(): a V2 protocol object has no handshake (TypeError); V3 data without a session key and any write on a closing
   transport raise ProtocolError; otherwise the packet goes out, the counter advances with the 12-bit mask, and the
   peer reacts *)
Definition write_refused (k : wkind) (c : conn) : option exn :=
  match k, c_v3 c, c_key c with
  | WHs _, false, _ => Some EType
  | WData _, true, None => Some EProtocol
  | _, _, _ => if c_closing c then Some EProtocol else None
  end.

Definition write_event (k : wkind) (c : conn) : event :=
  match k with
  | WHs good => EvHs (c_id c) (c_pid c) good
  | WData f => if c_v3 c then EvData (c_id c) (c_pid c) (match c_key c with Some x => x | None => O end) f
               else EvData2 (c_id c) f
  end.

Definition write_world (w : world) (c : conn) (k : wkind) : world :=
  let is_hs := match k with WHs _ => true | WData _ => false end in
  let r := hd [] (if is_hs then w_hsr w else w_replies w) in
  let pk0 := if c_v3 c then c_peerkey c else Some O in
  let res := resolve (w_now w) (w_nkid w) pk0 r in
  let c' := mkConn (c_id c) (c_v3 c) (c_closing c)
                   (if c_v3 c then N.land (c_pid c + 1) PACKET_ID_MASK else c_pid c)
                   (c_key c) (c_lexp c) (c_q c) (schedule (fst (fst res)) (c_in c))
                   (if c_v3 c then snd (fst res) else c_peerkey c) in
  mkWorld (mkLan (Some c') (l_v3 (w_lan w)) (l_creds (w_lan w)) (l_cexp (w_lan w)) (l_maxlife (w_lan w)))
          (w_now w) (w_conns w) (if is_hs then tl (w_hsr w) else w_hsr w) (if is_hs then w_replies w else tl (w_replies w))
          (w_ncid w) (snd res) (w_log w ++ [write_event k c]).

Definition proto_write (k : wkind) : M unit :=
  fun w =>
    match l_proto (w_lan w) with
    | None => (Err EAssert, w)
    | Some c =>
      match write_refused k c with
      | Some e => (Err e, w)
      | None => (Ok tt, write_world w c k)
      end
    end.

(* _read_queue(timeout): timeout = 0 -> get_nowait; otherwise wait at most read_timeout ms *)
Definition READ_TIMEOUT : N := 2000.
Definition CONNECT_TIMEOUT : N := 5000.

Definition first_arrival (inflight : list (N * pkt)) : option N :=
  match inflight with
  | [] => None
  | (a, PClose) :: _ => None          (* a close wakes nobody up; later items are never delivered *)
  | (a, _) :: _ => Some a
  end.

Definition pop_queue : M pkt :=
  dom c <- the_conn;
  match c_q c with
  | p :: rest => set_conn (fun c => mkConn (c_id c) (c_v3 c) (c_closing c) (c_pid c) (c_key c) (c_lexp c) rest (c_in c) (c_peerkey c)) ;; ret p
  | [] => raise EQueueEmpty
  end.

Definition read_queue (blocking : bool) : M pkt :=
  dom c <- the_conn;
  match c_q c with
  | _ :: _ => pop_queue
  | [] =>
    if negb blocking then raise EQueueEmpty else
    dom w <- get;
    let deadline := w_now w + READ_TIMEOUT in
    match (if c_closing c then None else first_arrival (c_in c)) with
    | Some a => if a <? deadline then advance_to (N.max a (w_now w)) ;; set_conn conn_deliver_head ;; pop_queue
                else advance_to deadline ;; raise ETimeout
    | None => advance_to deadline ;; raise ETimeout
    end
  end.

(* what LAN._read makes of a packet (process + decode) and what the handshake makes of it *)
Definition as_data (c : conn) (p : pkt) : res N :=
  match p with
  | PFrame f kid => if c_v3 c then (if match c_key c with Some k => Nat.eqb k kid | None => false end then Ok f else Err EProtocol)
                    else Ok f
  | _ => Err EProtocol
  end.
Definition as_hs (good_key : bool) (p : pkt) : res nat :=
  match p with
  | PHsOk kid => if good_key then Ok kid else Err EAuth
  | _ => Err EAuth
  end.

Definition lan_read (blocking : bool) : M N :=
  dom p <- read_queue blocking;
  dom c <- the_conn;
  match as_data c p with Ok f => ret f | Err e => raise e end.

Definition flush : M unit :=
  set_conn (fun c => mkConn (c_id c) (c_v3 c) (c_closing c) (c_pid c) (c_key c) (c_lexp c) [] (c_in c) (c_peerkey c)).

Definition AUTH_EXP_MS : N := AUTHENTICATION_EXPIRATION_S * 1000.

(* the handshake succeeded: store the local key with its 12 h expiry *)
Definition accept_key (kid : nat) : M unit :=
  fun w =>
    match l_proto (w_lan w) with
    | None => (Err EAssert, w)
    | Some c =>
      let c' := mkConn (c_id c) (c_v3 c) (c_closing c) (c_pid c) (Some kid) (Some (w_now w + AUTH_EXP_MS)) (c_q c) (c_in c) (c_peerkey c) in
      let l := w_lan w in
      (Ok tt, mkWorld (mkLan (Some c') (l_v3 l) (l_creds l) (l_cexp l) (l_maxlife l)) (w_now w) (w_conns w) (w_hsr w) (w_replies w)
                      (w_ncid w) (w_nkid w) (w_log w ++ [EvAuthOk (c_id c) kid]))
    end.

(* _LanProtocolV3.authenticate(token, key) *)
Definition proto_authenticate (creds : option bool) : M unit :=
  match creds with
  | None => raise EAuth
  | Some good =>
    flush ;;
    dom p <- mcatch (proto_write (WHs good) ;; read_queue true) [EProtocol] (fun _ => raise EAuth);
    match as_hs good p with
    | Err e => raise e
    | Ok kid => accept_key kid
    end
  end.

Definition authenticated : M bool :=
  dom c <- the_conn; dom w <- get;
  ret (match c_key c, c_lexp c with Some _, Some e => negb (e <? w_now w) | _, _ => false end).

(* ---------------- LAN ---------------- *)
Definition lan_alive : M bool :=
  dom w <- get;
  ret (match l_proto (w_lan w) with
       | None => false
       | Some c => negb (c_closing c) && match l_cexp (w_lan w) with Some e => negb (e <? w_now w) | None => true end
       end).

Definition lan_disconnect : M unit :=
  dom w <- get;
  match l_proto (w_lan w) with
  | None => ret tt
  | Some c => (if c_closing c then ret tt else log (EvClose (c_id c))) ;;      (* closing an already closing transport is a no-op *)
              set_lan (fun l => mkLan None (l_v3 l) (l_creds l) (l_cexp l) (l_maxlife l))
  end.

Definition lan_connect : M unit :=
  dom w <- get;
  let w1 := mkWorld (w_lan w) (w_now w) (tl (w_conns w)) (w_hsr w) (w_replies w) (w_ncid w) (w_nkid w) (w_log w) in
  match hd ConnOk (w_conns w) with
  | ConnRefused => put w1 ;; raise EProtocol
  | ConnHang => put w1 ;; advance_to (w_now w + CONNECT_TIMEOUT) ;; raise ETimeout
  | ConnOk =>
    let c := mkConn (w_ncid w) (l_v3 (w_lan w)) false 0 None None [] [] None in
    let l := w_lan w in
    put (mkWorld (mkLan (Some c) (l_v3 l) (l_creds l)
                        (match l_maxlife l with Some m => Some (w_now w + m) | None => l_cexp l end) (l_maxlife l))
                 (w_now w) (tl (w_conns w)) (w_hsr w) (w_replies w) (S (w_ncid w)) (w_nkid w) (w_log w ++ [EvConnect (w_ncid w) (l_v3 l)]))
  end.

Fixpoint auth_loop (retries : nat) (creds : option bool) : M unit :=
  match retries with
  | O => ret tt
  | S r => mcatch (proto_authenticate creds) [ETimeout]
                  (fun e => match r with O => raise ETimeout | _ => auth_loop r creds end)
  end.

(* LAN.authenticate(token, key, retries); given = None uses the cached pair *)
Definition lan_authenticate (given : option bool) (retries : nat) : M unit :=
  dom w0 <- get;
  let creds := match given with Some g => Some g | None => l_creds (w_lan w0) end in
  dom al <- lan_alive;
  dom w <- get;
  let is_v3 := match l_proto (w_lan w) with Some c => c_v3 c | None => false end in
  (if negb al || negb is_v3
   then lan_disconnect ;; set_lan (fun l => mkLan (l_proto l) true (l_creds l) (l_cexp l) (l_maxlife l)) ;; lan_connect
   else ret tt) ;;
  auth_loop retries creds ;;
  dom a <- authenticated;
  (if a then ret tt else raise EAssert) ;;
  set_lan (fun l => mkLan (l_proto l) (l_v3 l) creds (l_cexp l) (l_maxlife l)) ;;
  dom w2 <- get; advance_to (w_now w2 + 1000).

Fixpoint read_available (fuel : nat) (acc : list N) : M (list N) :=
  match fuel with
  | O => ret acc
  | S f =>
    (* an invalid packet (ProtocolError) is skipped; QueueEmpty ends the loop *)
    mcatch (dom r <- mcatch (dom x <- lan_read false; ret (Some x)) [EProtocol] (fun _ => ret None);
            read_available f (match r with Some x => acc ++ [x] | None => acc end))
           [EQueueEmpty] (fun _ => ret acc)
  end.

Definition queue_len : M nat := dom c <- the_conn; ret (length (c_q c)).

Fixpoint send_loop (retries : nat) (frame : N) (acc : list N) : M (list N) :=
  match retries with
  | O => ret acc
  | S r =>
    proto_write (WData frame) ;;                      (* outside the try: an error here propagates without disconnect *)
    dom got <- mcatch (mcatch (mcatch (dom x <- lan_read true; ret (Some x))
       [ETimeout] (fun _ => match r with O => lan_disconnect ;; raise ETimeout | _ => ret None end))
       [EProtocol] (fun e => lan_disconnect ;; raise e))
       [ECancelled] (fun _ => lan_disconnect ;; raise ETimeout);
    match got with
    | Some x => ret (acc ++ [x])
    | None => send_loop r frame acc
    end
  end.

(* LAN.send(frame, retries) *)
Definition lan_send (frame : N) (retries : nat) : M (list N) :=
  dom al <- lan_alive;
  (if al then ret tt else lan_disconnect ;; lan_connect) ;;
  dom c <- the_conn;
  (if c_v3 c then dom a <- authenticated; (if a then ret tt else lan_authenticate None (N.to_nat LAN_RETRIES)) else ret tt) ;;
  dom n0 <- queue_len;
  dom pre <- read_available (S n0) [];
  dom got <- send_loop retries frame pre;
  dom n1 <- queue_len;
  read_available (S n1) got.

(* ---------------- Device wrappers (base_device.py) ---------------- *)
Definition dev_send_command (frame : N) : M (list N) :=
  mcatch (lan_send frame (N.to_nat LAN_RETRIES)) [EProtocol; ETimeout] (fun _ => ret []).
Definition dev_authenticate (good : bool) : M unit :=
  mcatch (lan_authenticate (Some good) (N.to_nat LAN_RETRIES)) [EProtocol; ETimeout] (fun _ => raise EAuth).

(* ---------------- operations of a history ---------------- *)
Inductive op :=
| OSend (frame : N) (retries : nat)
| OAuth (given : option bool) (retries : nat)
| ODevSend (frame : N)
| ODevAuth (good : bool)
| OTick (ms : N)
| OSetLife (ms : option N).

Inductive outcome := OutFrames (l : list N) | OutUnit | OutErr (e : exn).

(* between two operations the event loop keeps running: everything that has arrived by now is delivered *)
Definition settle (w : world) : world := snd (set_conn (conn_deliver (w_now w + 1)) w).

Definition run_op_raw (o : op) : world -> outcome * world :=
  fun w =>
  match o with
  | OSend f r => match lan_send f r w with (Ok l, w') => (OutFrames l, w') | (Err e, w') => (OutErr e, w') end
  | OAuth g r => match lan_authenticate g r w with (Ok _, w') => (OutUnit, w') | (Err e, w') => (OutErr e, w') end
  | ODevSend f => match dev_send_command f w with (Ok l, w') => (OutFrames l, w') | (Err e, w') => (OutErr e, w') end
  | ODevAuth g => match dev_authenticate g w with (Ok _, w') => (OutUnit, w') | (Err e, w') => (OutErr e, w') end
  | OTick ms => match advance_to (w_now w + ms) w with (_, w') => (OutUnit, w') end
  | OSetLife ms => match set_lan (fun l => mkLan (l_proto l) (l_v3 l) (l_creds l) (l_cexp l) ms) w with (_, w') => (OutUnit, w') end
  end.

Definition run_op (o : op) (w : world) : outcome * world :=
  let '(r, w') := run_op_raw o w in (r, settle w').

Fixpoint run_ops (os : list op) (w : world) : list outcome * world :=
  match os with
  | [] => ([], w)
  | o :: t => let '(r, w1) := run_op o w in let '(rs, w2) := run_ops t w1 in (r :: rs, w2)
  end.
