(* Faithful model of msmart/crc8.py and msmart/frame.py. Definitions only. *)
From MS Require Import lib.Base gen.GenCrc gen.GenConst.

(* crc8.calculate: crc = TABLE[(crc ^ m) & 0xFF] *)
Definition crc_step (c m : N) : N :=
  nth (N.to_nat (N.land (N.lxor c m) 255)) crc_table 0.
Definition crc8 (l : bytes) : N := fold_left crc_step l 0.

(* Frame.checksum: (~sum(frame) + 1) & 0xFF *)
Definition checksum (l : bytes) : N := (256 - sumN l mod 256) mod 256.

(* Frame.tobytes; header[1] = len(data)+10 raises ValueError above 255 *)
Definition frame_tobytes (dt ft : N) (data : bytes) : res bytes :=
  let lenb := N.of_nat (length data) + 10 in
  if 255 <? lenb then Err EValue
  else
    let frame := [170; lenb; dt; 0; 0; 0; 0; 0; 0; ft] ++ data in
    Ok (frame ++ [checksum (skipn 1 frame)]).

(* Frame.validate on a memoryview: frame[-1] raises IndexError on the empty frame *)
Definition frame_validate (f : bytes) : res unit :=
  do lastb <- idx_neg f 1;
  if checksum (slice_neg f 1 1) =? lastb then Ok tt else Err EInvalidFrame.
