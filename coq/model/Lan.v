(* Faithful model of the packet layer of msmart/lan.py: Security, _Packet (V2), the V3 packet codec of
   _LanProtocolV3 and its stream reassembly. Definitions only. *)
From MS Require Import lib.Base gen.GenLan crypto.MD5 crypto.SHA256 crypto.AES crypto.Modes.

(* ---------------- Security ---------------- *)
Definition ENC_KEY : bytes := md5 SIGN_KEY.
Definition security_sign (data : bytes) : bytes := md5 (data ++ SIGN_KEY).

(* AES.new raises ValueError for a key that is not 16/24/32 bytes *)
Definition aes_key_ok (key : bytes) : bool :=
  let n := length key in Nat.eqb n 16 || Nat.eqb n 24 || Nat.eqb n 32.
Definition encrypt_aes_cbc (key data : bytes) : res bytes :=
  if aes_key_ok key then cbc_enc key data else Err EValue.
Definition decrypt_aes_cbc (key data : bytes) : res bytes :=
  if aes_key_ok key then cbc_dec key data else Err EValue.

Definition encrypt_aes (data : bytes) : res bytes := ecb_enc ENC_KEY (pkcs7_pad data).
Definition decrypt_aes (data : bytes) : res bytes := do p <- ecb_dec ENC_KEY data; pkcs7_unpad p.

(* strxor: ValueError unless both have the same length *)
Definition strxor (a b : bytes) : res bytes :=
  if Nat.eqb (length a) (length b) then Ok (xor_bytes a b) else Err EValue.

(* Security.udpid *)
Definition udpid (device_id : bytes) : bytes :=
  let h := sha256 device_id in xor_bytes (firstn 16 h) (skipn 16 h).

(* ---------------- V2: _Packet ---------------- *)
(* _timestamp() from the components of datetime.now(timezone.utc) *)
Definition timestamp (year month day hour minute second microsecond : N) : bytes :=
  [microsecond / 10000; second; minute; hour; day; month; year mod 100; year / 100].

Definition v2_encode (ts : bytes) (device_id : N) (command : bytes) : res bytes :=
  do enc <- encrypt_aes command;
  let length_ := 40 + N.of_nat (length enc) + 16 in
  do lenb <- to_bytes_le 2 length_;
  do idb <- to_bytes_le 8 device_id;
  let header := [90; 90; 1; 17] ++ lenb ++ [32; 0] ++ zeros 4 ++ ts ++ idb ++ zeros 12 in
  let packet := header ++ enc in
  Ok (packet ++ security_sign packet).

Definition v2_decode (data : bytes) : res bytes :=
  if (length data <? 6)%nat then Err EProtocol
  else if negb (beqb (slice data 0 2) [90; 90]) then Err EProtocol
  else
    let length_ := N.to_nat (from_le (slice data 4 6)) in
    if (length data <? length_)%nat then Err EProtocol
    else
      let packet := firstn length_ data in
      let encrypted_frame := slice_neg packet 40 16 in
      let rx_hash := last_n packet 16 in
      if negb (beqb (security_sign (slice_neg packet 0 16)) rx_hash) then Err EProtocol
      else catch (decrypt_aes encrypted_frame) [EValue] (fun _ => Err EProtocol).    (* fix: ValueError -> ProtocolError *)

(* ---------------- V3 packets ---------------- *)
Definition v3_header (length_ : N) (extra : bytes) : res bytes :=
  do lb <- to_bytes_be 2 length_; Ok ([131; 112] ++ lb ++ [32] ++ extra).

(* _encode_encrypted_request(packet_id, data) with the pad random bytes made explicit *)
Definition v3_encode_request (key : option bytes) (packet_id : N) (data rnd : bytes) : res bytes :=
  match key with
  | None => Err EProtocol
  | Some k =>
    let remainder := ((length data + 2) mod 16)%nat in
    let pad := if Nat.eqb remainder 0 then 0%nat else (16 - remainder)%nat in
    let length_ := N.of_nat (length data + pad + 32) in
    do header <- v3_header length_ [N.lor (N.shiftl (N.of_nat pad) 4) PacketType_ENCRYPTED_REQUEST];
    do idb <- to_bytes_be 2 packet_id;
    let payload := idb ++ data ++ firstn pad rnd in
    do c <- encrypt_aes_cbc k payload;
    Ok (header ++ c ++ sha256 (header ++ payload))
  end.

Definition v3_encode_handshake (packet_id : N) (data : bytes) : res bytes :=
  do header <- v3_header (N.of_nat (length data)) [PacketType_HANDSHAKE_REQUEST];
  do idb <- to_bytes_be 2 packet_id;
  Ok (header ++ idb ++ data).

Definition v3_decode_encrypted_response (key : option bytes) (packet : bytes) : res bytes :=
  match key with
  | None => Err EProtocol          (* fix: was an assert *)
  | Some k =>
    let header := firstn 6 packet in
    let payload := slice_neg packet 6 32 in
    let rx_hash := last_n packet 32 in
    do dec <- catch (decrypt_aes_cbc k payload) [EValue] (fun _ => Err EProtocol);   (* fix: ValueError -> ProtocolError *)
    if negb (beqb (sha256 (header ++ dec)) rx_hash) then Err EProtocol
    else
      do h5 <- idx header 5;
      let pad := N.to_nat (N.shiftr h5 4) in
      Ok (slice dec 2 (length dec - pad))        (* payload[2:len(payload) - pad] (fix for pad = 0) *)
  end.

Definition v3_process_packet (key : option bytes) (packet : bytes) : res bytes :=
  if negb (beqb (slice packet 0 2) [131; 112]) then Err EProtocol else
  do p4 <- idx packet 4;
  if negb (p4 =? 32) then Err EProtocol else
  do p5 <- idx packet 5;
  let ptype := N.land p5 15 in
  if ptype =? PacketType_ENCRYPTED_RESPONSE then v3_decode_encrypted_response key packet
  else if ptype =? PacketType_HANDSHAKE_RESPONSE then Ok (skipn 2 (skipn 6 packet))
  else Err EProtocol.

(* _get_local_key(key, data) *)
Definition get_local_key (key data : bytes) : res bytes :=
  if negb (Nat.eqb (length data) 64) then Err EAuth else
  let payload := firstn 32 data in
  let rx_hash := skipn 32 data in
  do dec <- decrypt_aes_cbc key payload;
  if negb (beqb (sha256 dec) rx_hash) then Err EAuth
  else strxor dec key.

(* ---------------- V3 stream reassembly: _LanProtocolV3.data_received ---------------- *)
Definition total_size (b : bytes) : nat := N.to_nat (nthb b 2 * 256 + nthb b 3) + 8.

(* one iteration of the while loop: None = return (wait for more data), Some = packet extracted *)
Definition rx_step (buf : bytes) : option (bytes * bytes) :=
  match find2 131 112 buf with
  | None => None
  | Some s =>
    let b := skipn s buf in
    if (length b <? 6)%nat then None
    else let t := total_size b in
      if (length b <? t)%nat then None
      else Some (firstn t b, skipn t b)
  end.

Fixpoint drain (fuel : nat) (buf : bytes) (q : list bytes) : bytes * list bytes :=
  match fuel with
  | O => (buf, q)
  | S f =>
    match buf with
    | [] => (buf, q)
    | _ => match rx_step buf with
           | None => (buf, q)
           | Some (p, rest) => drain f rest (q ++ [p])
           end
    end
  end.

Definition drain_all (buf : bytes) (q : list bytes) := drain (S (length buf)) buf q.
(* state = (buffer, queue) *)
Definition data_received (st : bytes * list bytes) (d : bytes) : bytes * list bytes :=
  drain_all (fst st ++ d) (snd st).
