(* Faithful model of the NetHome Plus cloud client of msmart/cloud.py (BaseCloud, NetHomePlusCloud and its _Security) and of
   the cloud part of msmart/discover.py (_get_cloud, _authenticate_device, connect). Definitions only.

   Strings are byte lists (`str`). The modelled alphabet is ASCII (every byte < 128): `msg.encode("ASCII")` raises
   UnicodeEncodeError for anything else, which is outside the model. On ASCII strings `unquote_plus(urlencode(items))` is
   exactly "&".join(k + "=" + v): quote_plus escapes every reserved byte (including '%', '+', '&', '=') and unquote_plus
   undoes precisely that (checked on every ASCII code point by the harness), so no further character is excluded.
   Integer values of the request (format, clientType) appear as their str() (urlencode does that).
   `urlparse(endpoint).path` is the endpoint itself for the paths used (one leading '/', no scheme, '?', '#', ';' in them;
   a path starting with "//" would be read as a network location).
   JSON text is not modelled: a response is the already parsed (errorCode, result) pair. *)
From MS Require Import lib.Base gen.GenCloud crypto.SHA256 crypto.Modes model.Lan.
Local Open Scope N_scope.

Definition str := bytes.
Definition field := (str * str)%type.      (* key, str(value) *)

(* ---------------- _Security ---------------- *)
(* bytes.hex() / hexdigest(): lowercase *)
Definition hexd (n : N) : N := if n <? 10 then 48 + n else 87 + n.
Fixpoint hex (l : bytes) : str :=
  match l with [] => [] | b :: t => hexd (b / 16) :: hexd (b mod 16) :: hex t end.

(* Python's  a <= b  on str: code points, which are the bytes for ASCII; a proper prefix is smaller *)
Fixpoint str_leb (a b : str) : bool :=
  match a, b with
  | [], _ => true
  | _ :: _, [] => false
  | x :: a', y :: b' => if x <? y then true else if y <? x then false else str_leb a' b'
  end.

(* sorted(data.items()): the keys of a dict are distinct, so the tuple comparison never reaches the values; stable *)
Fixpoint insert_field (f : field) (l : list field) : list field :=
  match l with
  | [] => [f]
  | h :: t => if str_leb (fst f) (fst h) then f :: l else h :: insert_field f t
  end.
Definition sorted_items (d : list field) : list field := fold_right insert_field [] d.

(* unquote_plus(urlencode(items)) *)
Fixpoint join_query (l : list field) : str :=
  match l with
  | [] => []
  | f :: t => fst f ++ [61] ++ snd f ++ match t with [] => [] | _ => [38] ++ join_query t end
  end.

Definition sign (path : str) (d : list field) : str :=
  hex (sha256 (path ++ join_query (sorted_items d) ++ NHP_APP_KEY)).

Definition encrypt_password (login_id password : str) : str :=
  hex (sha256 (login_id ++ hex (sha256 password) ++ NHP_APP_KEY)).

(* ---------------- dict ---------------- *)
(* d[k] = v : an existing key keeps its position *)
Fixpoint dict_set (d : list field) (k v : str) : list field :=
  match d with
  | [] => [(k, v)]
  | (k', v') :: t => if beqb k' k then (k', v) :: t else (k', v') :: dict_set t k v
  end.
Definition dict_update (d data : list field) : list field :=
  fold_left (fun acc kv => dict_set acc (fst kv) (snd kv)) data d.
Fixpoint dict_get (d : list field) (k : str) : option str :=
  match d with [] => None | (k', v) :: t => if beqb k' k then Some v else dict_get t k end.

(* ---------------- request bodies ---------------- *)
Definition base_value (device_id stamp : str) (src : N) : str :=
  match src with
  | 0 => NHP_APP_ID | 1 => FORMAT_STR | 2 => CLIENT_TYPE_STR | 3 => LANGUAGE | 4 => device_id | _ => stamp
  end.
(* BaseCloud._build_request_body *)
Definition base_request_body (device_id stamp : str) (data : list field) : list field :=
  dict_update (fold_left (fun acc ks => dict_set acc (fst ks) (base_value device_id stamp (snd ks))) BASE_BODY_SHAPE []) data.
(* NetHomePlusCloud._build_request_body *)
Definition build_request_body (session_id device_id stamp : str) (data : list field) : list field :=
  dict_update (base_request_body device_id stamp [(K_sessionId, session_id)]) data.

(* ---------------- responses ---------------- *)
Record entry := mkEntry { e_udpid : str; e_token : str; e_key : str }.
(* the "result" object of a response, by the keys the flow reads *)
Inductive result :=
| RLoginId (l : str)               (* {"loginId": l} *)
| RSession (s : str)               (* {"sessionId": s, ...} *)
| RTokens (l : list entry)         (* {"tokenlist": [{"udpId","token","key"}, ...]} *)
| ROther.                          (* a non-empty object without any of these keys *)
Record api_resp := mkResp { r_code : Z; r_result : result }.

(* NetHomePlusCloud._parse_response *)
Definition parse_response (r : api_resp) : res result :=
  if (r_code r =? 0)%Z then Ok (r_result r) else Err EApi.

(* what one POST attempt meets *)
Inductive outcome :=
| OTimeout                         (* httpx.TimeoutException *)
| OHttpErr                         (* any other httpx.HTTPError: transport failure or raise_for_status() *)
| OResp (r : api_resp).

Definition request := (str * list field)%type.      (* endpoint path, form fields in transmitted order *)

(* the loop of get_token *)
Fixpoint find_token (udpid : str) (l : list entry) : option (str * str) :=
  match l with
  | [] => None
  | e :: t => if beqb (e_udpid e) udpid then Some (e_token e, e_key e) else find_token udpid t
  end.

Record cstate := mkC {
  c_account : str; c_password : str;
  c_login_id : option str;        (* self._login_id *)
  c_has_session : bool;           (* bool(self._session) *)
  c_session_id : str }.           (* self._session_id *)

Definition nonempty (s : str) : bool := match s with [] => false | _ => true end.
Fixpoint assoc {A} (k : str) (l : list (str * A)) : option A :=
  match l with [] => None | (k', v) :: t => if beqb k' k then Some v else assoc k t end.

(* BaseCloud.__init__ via NetHomePlusCloud(region, account=, password=): [] stands for None / "" (both falsy) *)
Definition cloud_new (region account password : str) : res cstate :=
  if nonempty account && nonempty password then Ok (mkC account password None false [])
  else if nonempty account || nonempty password then Err EValue
  else match assoc region NHP_CLOUD_CREDENTIALS with
       | Some (a, p) => Ok (mkC a p None false [])
       | None => Err EValue
       end.

Section Flow.
  (* the environment: a server that answers one POST attempt at a time, the process-wide random DEVICE_ID, the clock
     (stamp of a request as a function of the number of attempts made so far) *)
  Variable SV : Type.
  Variable srv : SV -> request -> SV * outcome.
  Variable device_id : str.
  Variable stamp_of : nat -> str.

  Definition world := (SV * list request)%type.       (* server state, every attempt posted so far (oldest first) *)

  (* BaseCloud._post_request: the while loop; None = the loop was not entered (retries <= 0) *)
  Fixpoint post_request (retries : nat) (w : world) (rq : request) : res (option result) * world :=
    match retries with
    | O => (Ok None, w)
    | S r =>
      let '(s', o) := srv (fst w) rq in
      let w' := (s', snd w ++ [rq]) in
      match o with
      | OResp resp => (do x <- parse_response resp; Ok (Some x), w')
      | OTimeout => match r with O => (Err ECloud, w') | _ => post_request r w' rq end
      | OHttpErr => (Err ECloud, w')
      end
    end.

  (* NetHomePlusCloud._api_request *)
  Definition api_request (w : world) (endpoint : str) (body : list field) : res (option result) * world :=
    post_request CLOUD_RETRIES w (endpoint, dict_set body K_sign (sign endpoint body)).

  Definition body_for (c : cstate) (w : world) (data : list field) : list field :=
    build_request_body (c_session_id c) device_id (stamp_of (length (snd w))) data.

  (* BaseCloud._get_login_id *)
  Definition get_login_id (c : cstate) (w : world) : res str * world :=
    let '(r, w') := api_request w EP_LOGIN_ID (body_for c w [(K_loginAccount, c_account c)]) in
    (do o <- r;
     match o with
     | None => Err EAssert
     | Some (RLoginId l) => Ok l
     | Some _ => Err EKey
     end, w').

  (* NetHomePlusCloud.login *)
  Definition login (force : bool) (c : cstate) (w : world) : res unit * cstate * world :=
    if c_has_session c && negb force then (Ok tt, c, w) else
    let '(rl, c1, w1) :=
      match c_login_id c with
      | Some l => (Ok l, c, w)
      | None =>
        let '(r, w') := get_login_id c w in
        (r, match r with
            | Ok l => mkC (c_account c) (c_password c) (Some l) (c_has_session c) (c_session_id c)
            | Err _ => c end, w')
      end in
    match rl with
    | Err e => (Err e, c1, w1)
    | Ok lid =>
      let body := body_for c1 w1 [(K_login_account, c_account c1); (K_password, encrypt_password lid (c_password c1))] in
      let '(r, w2) := api_request w1 EP_LOGIN body in
      match r with
      | Err e => (Err e, c1, w2)
      | Ok None => (Err EAssert, c1, w2)
      | Ok (Some (RSession sid)) => (Ok tt, mkC (c_account c1) (c_password c1) (c_login_id c1) true sid, w2)
      | Ok (Some _) =>          (* self._session = response precedes the failing response["sessionId"] *)
        (Err EKey, mkC (c_account c1) (c_password c1) (c_login_id c1) true (c_session_id c1), w2)
      end
    end.

  (* BaseCloud.get_token *)
  Definition get_token (c : cstate) (w : world) (udpid : str) : res (str * str) * world :=
    let '(r, w') := api_request w EP_GET_TOKEN (body_for c w [(K_udpid, udpid)]) in
    (do o <- r;
     match o with
     | None => Err EAssert
     | Some (RTokens l) => match find_token udpid l with Some tk => Ok tk | None => Err ECloud end
     | Some _ => Err EKey
     end, w').

  (* ---------------- discover.py ---------------- *)
  (* Discover._get_cloud; dc = Discover._cloud *)
  Definition get_cloud (dc : option cstate) (region account password : str) (w : world)
    : res cstate * option cstate * world :=
    match dc with
    | Some c => (Ok c, dc, w)
    | None =>
      match cloud_new region account password with
      | Err e => (Err e, None, w)
      | Ok c0 =>
        let '(r, c1, w1) := login false c0 w in
        match r with
        | Ok _ => (Ok c1, Some c1, w1)
        | Err e => (Err (if subclass e ECloud then ECloud else e), None, w1)
        end
      end
    end.

  (* the device side of dev.authenticate(token, key) / dev.refresh(), abstract *)
  Variable D : Type.
  Variable dev_auth : D -> str -> str -> D * res unit.
  Variable dev_refresh : D -> D * res unit.

  Definition endian := N -> res bytes.
  Definition both_endians : list endian := [to_bytes_le 6; to_bytes_be 6].

  (* the for loop of Discover._authenticate_device (as fixed: a cloud error for one byte order is remembered and the
     other byte order is still tried; it is raised only when no byte order authenticated the device) *)
  Fixpoint auth_loop (c : cstate) (id : N) (ends : list endian) (err : bool) (d : D) (w : world)
    : res bool * D * world :=
    match ends with
    | [] => (if err then Err ECloud else Ok false, d, w)
    | f :: rest =>
      match f id with
      | Err e => (Err e, d, w)                           (* OverflowError of int.to_bytes *)
      | Ok b =>
        let '(r, w1) := get_token c w (hex (udpid b)) in
        match r with
        | Err e => if subclass e ECloud then auth_loop c id rest true d w1 else (Err e, d, w1)
        | Ok (t, k) =>
          let '(d1, ra) := dev_auth d t k in
          match ra with
          | Ok _ => (Ok true, d1, w1)
          | Err e => if subclass e EAuth then auth_loop c id rest err d1 w1 else (Err e, d1, w1)
          end
        end
      end
    end.

  Definition authenticate_device (dc : option cstate) (region account password : str) (id : N) (d : D) (w : world)
    : res bool * option cstate * D * world :=
    let '(rc, dc1, w1) := get_cloud dc region account password w in
    match rc with
    | Err e => (Err e, dc1, d, w1)
    | Ok c => let '(r, d1, w2) := auth_loop c id both_endians false d w1 in (r, dc1, d1, w2)
    end.

  (* Discover.connect *)
  Definition connect (v3 : bool) (dc : option cstate) (region account password : str) (id : N) (d : D) (w : world)
    : res bool * option cstate * D * world :=
    let refresh (dc1 : option cstate) (d1 : D) (w1 : world) :=
      let '(d2, rr) := dev_refresh d1 in
      match rr with
      | Ok _ => (Ok true, dc1, d2, w1)
      | Err e => if subclass e ENotImpl then (Ok false, dc1, d2, w1) else (Err e, dc1, d2, w1)
      end in
    if v3 then
      let '(r, dc1, d1, w1) := authenticate_device dc region account password id d w in
      match r with
      | Err e => (Err e, dc1, d1, w1)
      | Ok false => (Ok false, dc1, d1, w1)
      | Ok true => refresh dc1 d1 w1
      end
    else refresh dc d w.
End Flow.
