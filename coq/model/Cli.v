(* Faithful model of msmart/cli.py: _control (setting parsing, type-directed conversion, display special case,
   refresh - set - apply), _connect (manual construction) and the exit status produced through _run / main.
   The literal evaluator ast.literal_eval is a parameter [L] (see lib/PyLit.v for the part of it that is modelled).
   Strings are ASCII byte strings; str.upper / str.capitalize are only modelled on ASCII.  Definitions only. *)
From MS Require Import lib.Base lib.PyLit gen.GenConst gen.GenCmd gen.GenDev gen.GenCli model.Frame model.Command
  model.Response model.Device.
From RecordUpdate Require Import RecordSet.
Import RecordSetNotations.

(* how the process ends: exit(code) (SystemExit) or an exception nobody catches (traceback, status 1) *)
Inductive stop := SExit (code : Z) | SRaise (e : exn).
Definition exit_status (s : stop) : Z := match s with SExit c => c | SRaise _ => 1%Z end.

Inductive cres (A : Type) := COk (a : A) | CStop (s : stop).
Arguments COk {A} a.
Arguments CStop {A} s.

(* a converted value as handed to setattr *)
Inductive tval :=
| TEnum (v : Z)                        (* an enum member (an int) or, for the fan speed, a raw int *)
| TBool (b : bool)
| TInt (z : Z)
| TFloat (num : Z) (den : positive).

Fixpoint assoc {A} (k : bytes) (l : list (bytes * A)) : option A :=
  match l with [] => None | (k', v) :: t => if beqb k' k then Some v else assoc k t end.

(* getattr(AC, name, None) is a property / has a setter / type of the default value *)
Definition find_setting (name : bytes) : option (N * bool) := assoc name CLI_settings.

Definition enum_names (e : N) : list (bytes * N) := nth (N.to_nat e) CLI_enum_names [].
Definition is_member (e : N) (z : Z) : bool := existsb (fun nv => Z.eqb z (Z.of_N (snd nv))) (enum_names e).

Definition q_exact (num : Z) (den : positive) : option Z :=
  if (num mod Zpos den =? 0)%Z then Some (num / Zpos den)%Z else None.
Definition q_trunc (num : Z) (den : positive) : Z := Z.quot num (Zpos den).   (* int(x) truncates toward zero *)

Section WithLiteralEval.
  Variable L : bytes -> lit_class.          (* ast.literal_eval *)

  (* attr_type(value) for a number: the member with that value, else (ValueError) a raw int for FanSpeed, else exit(1) *)
  Definition enum_of_number (e : N) (exact : option Z) (truncated : Z) : cres tval :=
    match exact with
    | Some z => if is_member e z then COk (TEnum z)
                else if e =? CLI_enum_FanSpeed then COk (TEnum truncated) else CStop (SExit 1)
    | None => if e =? CLI_enum_FanSpeed then COk (TEnum truncated) else CStop (SExit 1)
    end.

  (* attr_type[value.upper()] ; KeyError -> exit(1) *)
  Definition enum_of_name (e : N) (s : bytes) : cres tval :=
    match assoc (upper s) (enum_names e) with Some v => COk (TEnum (Z.of_N v)) | None => CStop (SExit 1) end.

  (* the MideaIntEnum branch: only ValueError of literal_eval is caught (the raw string is then a name) *)
  Definition convert_enum (e : N) (raw : bytes) : cres tval :=
    match L raw with
    | LRaise err => if subclass err EValue then enum_of_name e raw else CStop (SRaise err)
    | LInt z => enum_of_number e (Some z) z
    | LBool b => let z := if b then 1%Z else 0%Z in enum_of_number e (Some z) z
    | LFloat n d => enum_of_number e (q_exact n d) (q_trunc n d)
    | LStr s => enum_of_name e s
    | LNone | LObj _ => CStop (SRaise EAttr)          (* value.upper() *)
    end.

  (* convert(v, t) for t in bool / int / float: ValueError and SyntaxError -> exit(1); only bool, int and float
     literals are accepted (fix 7ea9772) *)
  Definition convert_basic (kind : N) (s : bytes) : cres tval :=
    let cast (exact : option Z) (num : Z) (den : positive) : cres tval :=
      if kind =? KIND_BOOL then COk (TBool (negb (num =? 0)%Z))
      else if kind =? KIND_INT then COk (TInt (match exact with Some z => z | None => q_trunc num den end))
      else COk (TFloat num den) in
    match L s with
    | LRaise err => if subclass err EValue || subclass err ESyntax then CStop (SExit 1) else CStop (SRaise err)
    | LInt z => cast (Some z) z 1%positive
    | LBool b => let z := if b then 1%Z else 0%Z in cast (Some z) z 1%positive
    | LFloat n d => cast None n d
    | LStr _ | LNone | LObj _ => CStop (SExit 1)
    end.

  (* the three branches on the type of the default value *)
  Definition convert_value (kind : N) (value : bytes) : cres tval :=
    if kind <? 100 then convert_enum kind value
    else if kind =? KIND_BOOL then convert_basic kind (capitalize value)
    else convert_basic kind value.

  (* body of the loop for one name / value pair *)
  Definition parse_nv (name value : bytes) : cres (bytes * tval) :=
    match find_setting name with
    | None => CStop (SExit 1)                                           (* not a property *)
    | Some (kind, writable) =>
      if negb (beqb name sn_display_on) && negb writable then CStop (SExit 1)     (* no setter *)
      else match convert_value kind value with
           | COk v => COk (name, v)
           | CStop s => CStop s
           end
    end.

  (* name, value = s.split("=") : anything but exactly one '=' is a ValueError nobody catches *)
  Definition count_eq (s : bytes) : nat := length (filter (fun c => c =? 61) s).
  Definition parse_setting (s : bytes) : cres (bytes * tval) :=
    match split_on (fun c => c =? 61) s with
    | Some (name, value) => if Nat.eqb (count_eq s) 1 then parse_nv name value else CStop (SRaise EValue)
    | None => CStop (SRaise EValue)
    end.

  (* new_properties[name] = v : a dict keeps the position of the first insertion *)
  Fixpoint dict_set (d : list (bytes * tval)) (k : bytes) (v : tval) : list (bytes * tval) :=
    match d with
    | [] => [(k, v)]
    | (k', v') :: t => if beqb k' k then (k, v) :: t else (k', v') :: dict_set t k v
    end.

  Fixpoint parse_all (ss : list bytes) (acc : list (bytes * tval)) : cres (list (bytes * tval)) :=
    match ss with
    | [] => COk acc
    | s :: t => match parse_setting s with
                | COk (n, v) => parse_all t (dict_set acc n v)
                | CStop x => CStop x
                end
    end.
End WithLiteralEval.

(* ---------------- setattr(device, name, value) on the Device.v record ----------------
   Values the record cannot hold are stored through a representative that produces the same command bytes:
   a fan speed below zero (bytes([...]) raises ValueError exactly as for one above 255), the humidity modulo 128
   (the command masks it with 0x7F), a temperature as its integral part and "has a positive fraction" (math.modf). *)
Definition fan_rep (z : Z) : N := if (z <? 0)%Z then 256 else Z.to_N z.
Definition humidity_rep (z : Z) : N := Z.to_N (z mod 128).
Definition halves_rep (num : Z) (den : positive) : N :=
  2 * Z.to_N (q_trunc num den) + (if (0 <? num)%Z && negb (num mod Zpos den =? 0)%Z then 1 else 0).

Definition tv_bool (v : tval) : bool := match v with TBool b => b | _ => false end.
Definition tv_n (v : tval) : N := match v with TEnum z | TInt z => Z.to_N z | _ => 0 end.

Definition setattr_dev (d : dev) (name : bytes) (v : tval) : dev :=
  let b := tv_bool v in let n := tv_n v in
  if beqb name sn_beep then d <| d_beep := b |>
  else if beqb name sn_power_state then d <| d_power := b |>
  else if beqb name sn_fahrenheit then d <| d_fahrenheit := b |>
  else if beqb name sn_target_temperature then
    d <| d_target := match v with TFloat num den => halves_rep num den | _ => 0 end |>
  else if beqb name sn_operational_mode then d <| d_mode := n |>
  else if beqb name sn_fan_speed then d <| d_fan := match v with TEnum z => fan_rep z | _ => 0 end |>
  else if beqb name sn_breeze_away then set_breeze_away d b
  else if beqb name sn_breeze_mild then set_breeze_mild d b
  else if beqb name sn_breezeless then set_breezeless d b
  else if beqb name sn_swing_mode then d <| d_swing := n |>
  else if beqb name sn_horizontal_swing_angle then set_hangle d n
  else if beqb name sn_vertical_swing_angle then set_vangle d n
  else if beqb name sn_eco || beqb name sn_eco_mode then d <| d_eco := b |>
  else if beqb name sn_ieco then set_ieco d b
  else if beqb name sn_turbo || beqb name sn_turbo_mode then d <| d_turbo := b |>
  else if beqb name sn_freeze_protection || beqb name sn_freeze_protection_mode then d <| d_freeze := Some b |>
  else if beqb name sn_sleep || beqb name sn_sleep_mode then d <| d_sleep := b |>
  else if beqb name sn_follow_me then d <| d_follow_me := b |>
  else if beqb name sn_purifier then d <| d_purifier := b |>
  else if beqb name sn_use_alternate_energy_format then d <| d_use_binary := b |>
  else if beqb name sn_enable_energy_usage_requests then d <| d_request_energy := b |>
  else if beqb name sn_target_humidity then
    d <| d_humidity := Some (match v with TInt z => humidity_rep z | _ => 0 end) |>
  else if beqb name sn_rate_select then set_rate d n
  else if beqb name sn_aux_mode then d <| d_aux_mode := n |>
  else d.

Definition set_all (props : list (bytes * tval)) (d : dev) : dev :=
  fold_left (fun d nv => setattr_dev d (fst nv) (snd nv)) props d.

(* new_properties.pop("display_on", None) *)
Fixpoint dict_pop (d : list (bytes * tval)) (k : bytes) : option tval * list (bytes * tval) :=
  match d with
  | [] => (None, [])
  | (k', v) :: t => if beqb k' k then (Some v, t)
                    else let '(r, t') := dict_pop t k in (r, (k', v) :: t')
  end.

Section Control.
  Variable P : Type.
  Variable peer : P -> bytes -> P * list bytes.

  Definition stop_of (o : option exn) : stop := match o with Some e => SRaise e | None => SExit 0 end.

  (* _control after the settings were parsed: connect (manual construction, no traffic of its own), refresh,
     offline -> exit(1), optional capabilities, display toggle when different, setattr each, apply *)
  Definition run_props (caps : bool) (props : list (bytes * tval)) (w : world P) : world P * stop :=
    match refresh peer w with
    | (w1, Some e) => (w1, SRaise e)
    | (w1, None) =>
      if negb (d_online (w_dev w1)) then (w1, SExit 1) else
      match (if caps then get_capabilities peer w1 else (w1, None)) with
      | (w2, Some e) => (w2, SRaise e)
      | (w2, None) =>
        let '(display, rest) := dict_pop props sn_display_on in
        match (match display with
               | Some v => if Bool.eqb (tv_bool v) (d_display (w_dev w2)) then (w2, None)
                           else toggle_display peer w2
               | None => (w2, None)
               end) with
        | (w3, Some e) => (w3, SRaise e)
        | (w3, None) =>
          match rest with
          | [] => (w3, SExit 0)
          | _ => let '(w5, r) := apply_op peer (upd_dev w3 (set_all rest)) in (w5, stop_of r)
          end
        end
      end
    end.

  (* msmart-ng control HOST [--capabilities] setting=value ... : every setting is parsed before anything else *)
  Definition control (L : bytes -> lit_class) (caps : bool) (settings : list bytes) (w : world P) : world P * stop :=
    match parse_all L settings [] with
    | CStop s => (w, s)
    | COk props => run_props caps props w
    end.
End Control.
Arguments run_props {P}. Arguments control {P}.
