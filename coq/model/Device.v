(* Faithful model of msmart/device/AC/device.py (state, capability and property bookkeeping, the public
   operations as functions of what the transport returns). Definitions only. *)
From MS Require Import lib.Base gen.GenConst gen.GenCmd gen.GenDev model.Frame model.Command model.Response.
From RecordUpdate Require Import RecordSet.
Import RecordSetNotations.

Record dev := mkDev {
  d_beep : bool; d_power : bool;
  d_target : N;                      (* target temperature, half degrees *)
  d_mode : N; d_fan : N; d_swing : N;
  d_eco : bool; d_turbo : bool; d_freeze : option bool; d_sleep : bool; d_fahrenheit : bool;
  d_display : bool; d_filter : bool; d_follow_me : bool; d_purifier : bool;
  d_humidity : option N;
  d_indoor : option Z; d_outdoor : option Z; d_indoor_humidity : option N;
  d_aux_mode : N;
  d_total_energy : option N; d_current_energy : option N; d_power_usage : option N;
  d_use_binary : bool; d_request_energy : bool;
  (* capabilities *)
  d_sup_op_modes : list N; d_sup_swing_modes : list N; d_sup_fan_speeds : list N;
  d_sup_custom_fan : bool; d_sup_eco : bool; d_sup_turbo : bool; d_sup_freeze : bool;
  d_sup_display : bool; d_sup_filter : bool; d_sup_purifier : bool;
  d_sup_humidity : bool; d_sup_target_humidity : bool;
  d_min_temp : N; d_max_temp : N;     (* half degrees *)
  d_sup_rates : list N; d_sup_aux_modes : list N;
  d_sup_props : list N;              (* a set *)
  d_upd_props : list N;              (* a set *)
  d_hangle : N; d_vangle : N; d_self_clean : bool; d_rate : N; d_breeze : N; d_ieco : bool;
  d_online : bool; d_supported : bool
}.

#[export] Instance etaDev : Settable _ := settable! mkDev
  <d_beep; d_power; d_target; d_mode; d_fan; d_swing; d_eco; d_turbo; d_freeze; d_sleep; d_fahrenheit;
   d_display; d_filter; d_follow_me; d_purifier; d_humidity; d_indoor; d_outdoor; d_indoor_humidity;
   d_aux_mode; d_total_energy; d_current_energy; d_power_usage; d_use_binary; d_request_energy;
   d_sup_op_modes; d_sup_swing_modes; d_sup_fan_speeds; d_sup_custom_fan; d_sup_eco; d_sup_turbo; d_sup_freeze;
   d_sup_display; d_sup_filter; d_sup_purifier; d_sup_humidity; d_sup_target_humidity; d_min_temp; d_max_temp;
   d_sup_rates; d_sup_aux_modes; d_sup_props; d_upd_props; d_hangle; d_vangle; d_self_clean; d_rate; d_breeze;
   d_ieco; d_online; d_supported>.

(* AirConditioner.__init__ *)
Definition dev_init : dev := {|
  d_beep := false; d_power := false; d_target := 34; d_mode := OperationalMode_AUTO; d_fan := FanSpeed_AUTO;
  d_swing := SwingMode_OFF; d_eco := false; d_turbo := false; d_freeze := Some false; d_sleep := false;
  d_fahrenheit := false; d_display := false; d_filter := false; d_follow_me := false; d_purifier := false;
  d_humidity := Some 40; d_indoor := None; d_outdoor := None; d_indoor_humidity := None;
  d_aux_mode := AuxHeatMode_OFF; d_total_energy := None; d_current_energy := None; d_power_usage := None;
  d_use_binary := false; d_request_energy := false;
  d_sup_op_modes := OperationalMode_values; d_sup_swing_modes := SwingMode_values;
  d_sup_fan_speeds := FanSpeed_values; d_sup_custom_fan := true; d_sup_eco := true; d_sup_turbo := true;
  d_sup_freeze := true; d_sup_display := true; d_sup_filter := true; d_sup_purifier := true;
  d_sup_humidity := false; d_sup_target_humidity := false; d_min_temp := 32; d_max_temp := 60;
  d_sup_rates := [RateSelect_OFF]; d_sup_aux_modes := [AuxHeatMode_OFF];
  d_sup_props := []; d_upd_props := [];
  d_hangle := SwingAngle_OFF; d_vangle := SwingAngle_OFF; d_self_clean := false; d_rate := RateSelect_OFF;
  d_breeze := BreezeMode_OFF; d_ieco := false; d_online := false; d_supported := false |}.

Definition mem (x : N) (l : list N) : bool := existsb (N.eqb x) l.
Definition set_add (x : N) (l : list N) : list N := if mem x l then l else l ++ [x].

(* MideaIntEnum.get_from_value *)
Definition get_from_value (values : list N) (default v : N) : N := if mem v values then v else default.

(* _update_state, StateResponse branch *)
Definition update_from_state (d : dev) (s : state_resp) : dev :=
  d <| d_power := s_power s |> <| d_target := s_target s |>
    <| d_mode := get_from_value OperationalMode_values OperationalMode_DEFAULT (s_mode s) |>
    <| d_fan := if d_sup_custom_fan d then s_fan s else get_from_value FanSpeed_values FanSpeed_DEFAULT (s_fan s) |>
    <| d_swing := get_from_value SwingMode_values SwingMode_DEFAULT (s_swing s) |>
    <| d_eco := s_eco s |> <| d_turbo := s_turbo s |> <| d_freeze := s_freeze s |> <| d_sleep := s_sleep s |>
    <| d_indoor := s_indoor s |> <| d_outdoor := s_outdoor s |> <| d_display := s_display s |>
    <| d_fahrenheit := s_fahrenheit s |> <| d_filter := s_filter s |> <| d_follow_me := s_follow_me s |>
    <| d_purifier := s_purifier s |> <| d_humidity := s_humidity s |>
    <| d_aux_mode := if s_indep_aux s then AuxHeatMode_AUX_ONLY
                     else if s_aux s then AuxHeatMode_AUX_HEAT else AuxHeatMode_OFF |>.

Definition opt_apply {A} (o : option A) (d : dev) (f : A -> dev -> dev) : dev :=
  match o with Some a => f a d | None => d end.

(* _update_state, PropertiesResponse branch *)
(* a legacy breeze property: active -> its mode; inactive -> clears only its own mode *)
Definition legacy_breeze (own v : N) (d : dev) : dev :=
  if negb (v =? 0) then d <| d_breeze := own |>
  else if d_breeze d =? own then d <| d_breeze := BreezeMode_OFF |> else d.

Definition update_from_props (d : dev) (p : pdict) : dev :=
  let d := opt_apply (pdict_get p PropertyId_SWING_LR_ANGLE) d
             (fun v d => d <| d_hangle := get_from_value SwingAngle_values SwingAngle_DEFAULT v |>) in
  let d := opt_apply (pdict_get p PropertyId_SWING_UD_ANGLE) d
             (fun v d => d <| d_vangle := get_from_value SwingAngle_values SwingAngle_DEFAULT v |>) in
  let d := opt_apply (pdict_get p PropertyId_SELF_CLEAN) d (fun v d => d <| d_self_clean := negb (v =? 0) |>) in
  let d := opt_apply (pdict_get p PropertyId_RATE_SELECT) d
             (fun v d => d <| d_rate := get_from_value RateSelect_values RateSelect_DEFAULT v |>) in
  let d := match pdict_get p PropertyId_BREEZE_CONTROL with
           | Some v => d <| d_breeze := if mem v BreezeMode_values then v else BreezeMode_OFF |>
           | None =>
             let d := opt_apply (pdict_get p PropertyId_BREEZE_AWAY) d (legacy_breeze BreezeMode_BREEZE_AWAY) in
             opt_apply (pdict_get p PropertyId_BREEZELESS) d (legacy_breeze BreezeMode_BREEZELESS)
           end in
  opt_apply (pdict_get p PropertyId_IECO) d (fun v d => d <| d_ieco := negb (v =? 0) |>).

Definition update_from_energy (d : dev) (e : energy_resp) : dev :=
  let pick (bcd bin : N) := if e_valid e then Some (if d_use_binary d then bin else bcd) else None in
  d <| d_total_energy := pick (e_total e) (e_total_bin e) |>
    <| d_current_energy := pick (e_current e) (e_current_bin e) |>
    <| d_power_usage := pick (e_power e) (e_power_bin e) |>.

Definition update_state (d : dev) (r : response) : dev :=
  match r with
  | RState _ s => update_from_state d s
  | RProps _ p => update_from_props d p
  | REnergy _ e => update_from_energy d e
  | RHumidity _ h => d <| d_indoor_humidity := h |>
  | RCaps _ _ _ | RBase _ => d
  end.

(* ---------------- capabilities -> attributes (_update_capabilities) ---------------- *)
Definition cget (c : cdict) (name : bytes) : bool :=
  match cdict_get c name with Some (CBool b) => b | Some (CHalf h) => negb (h =? 0) | None => false end.
Definition chalf (c : cdict) (name : bytes) (default : N) : N :=
  match cdict_get c name with Some (CHalf h) => h | Some (CBool b) => 2 * b2n b | None => default end.

Definition str (l : list N) := l.
Definition has_fan_key (c : cdict) : bool :=
  existsb (fun kv => beqb (firstn 4 (fst kv)) [102; 97; 110; 95]) c.         (* startswith("fan_") *)
Definition n_fan_silent := [102;97;110;95;115;105;108;101;110;116].
Definition n_fan_low := [102;97;110;95;108;111;119].
Definition n_fan_medium := [102;97;110;95;109;101;100;105;117;109].
Definition n_fan_high := [102;97;110;95;104;105;103;104].
Definition n_fan_auto := [102;97;110;95;97;117;116;111].
Definition n_fan_custom := [102;97;110;95;99;117;115;116;111;109].
Definition get_fan_speed (c : cdict) (name : bytes) (in_default_set : bool) : bool :=
  if has_fan_key c then cget c name || cget c n_fan_custom else in_default_set.

Definition n_dry_mode := [100;114;121;95;109;111;100;101].
Definition n_cool_mode := [99;111;111;108;95;109;111;100;101].
Definition n_heat_mode := [104;101;97;116;95;109;111;100;101].
Definition n_auto_mode := [97;117;116;111;95;109;111;100;101].
Definition n_aux_heat_mode := [97;117;120;95;104;101;97;116;95;109;111;100;101].
Definition n_aux_mode := [97;117;120;95;109;111;100;101].
Definition n_aux_electric_heat := [97;117;120;95;101;108;101;99;116;114;105;99;95;104;101;97;116].
Definition n_humidity_manual_set := [104;117;109;105;100;105;116;121;95;109;97;110;117;97;108;95;115;101;116].
Definition n_humidity_auto_set := [104;117;109;105;100;105;116;121;95;97;117;116;111;95;115;101;116].
Definition n_swing_horizontal := [115;119;105;110;103;95;104;111;114;105;122;111;110;116;97;108].
Definition n_swing_vertical := [115;119;105;110;103;95;118;101;114;116;105;99;97;108].
Definition n_eco := [101;99;111].
Definition n_ieco := [105;101;99;111].
Definition n_turbo_heat := [116;117;114;98;111;95;104;101;97;116].
Definition n_turbo_cool := [116;117;114;98;111;95;99;111;111;108].
Definition n_freeze_protection := [102;114;101;101;122;101;95;112;114;111;116;101;99;116;105;111;110].
Definition n_display_control := [100;105;115;112;108;97;121;95;99;111;110;116;114;111;108].
Definition n_filter_notice := [102;105;108;116;101;114;95;110;111;116;105;99;101].
Definition n_anion := [97;110;105;111;110].
Definition n_energy_stats := [101;110;101;114;103;121;95;115;116;97;116;115].
Definition n_swing_vertical_angle := [115;119;105;110;103;95;118;101;114;116;105;99;97;108;95;97;110;103;108;101].
Definition n_swing_horizontal_angle := [115;119;105;110;103;95;104;111;114;105;122;111;110;116;97;108;95;97;110;103;108;101].
Definition n_self_clean := [115;101;108;102;95;99;108;101;97;110].
Definition n_rate5 := [114;97;116;101;95;115;101;108;101;99;116;95;53;95;108;101;118;101;108].
Definition n_rate2 := [114;97;116;101;95;115;101;108;101;99;116;95;50;95;108;101;118;101;108].
Definition n_breeze_control := [98;114;101;101;122;101;95;99;111;110;116;114;111;108].
Definition n_breeze_away := [98;114;101;101;122;101;95;97;119;97;121].
Definition n_breezeless := [98;114;101;101;122;101;108;101;115;115].

Definition opt_list (b : bool) (x : N) : list N := if b then [x] else [].

Definition update_capabilities (d : dev) (c : cdict) : dev :=
  let target_humidity := cget c n_humidity_manual_set in
  let op_modes := [OperationalMode_FAN_ONLY]
      ++ opt_list (cget c n_dry_mode) OperationalMode_DRY ++ opt_list (cget c n_cool_mode) OperationalMode_COOL
      ++ opt_list (cget c n_heat_mode) OperationalMode_HEAT ++ opt_list (cget c n_auto_mode) OperationalMode_AUTO
      ++ opt_list target_humidity OperationalMode_SMART_DRY in
  let sh := cget c n_swing_horizontal in let sv := cget c n_swing_vertical in
  let swing := [SwingMode_OFF] ++ opt_list sh SwingMode_HORIZONTAL ++ opt_list sv SwingMode_VERTICAL
      ++ opt_list (sv && sh) SwingMode_BOTH in
  let fan_custom := cget c n_fan_custom in
  let fans := opt_list (get_fan_speed c n_fan_silent false) FanSpeed_SILENT
      ++ opt_list (get_fan_speed c n_fan_low true) FanSpeed_LOW
      ++ opt_list (get_fan_speed c n_fan_medium true) FanSpeed_MEDIUM
      ++ opt_list (get_fan_speed c n_fan_high true) FanSpeed_HIGH
      ++ opt_list (get_fan_speed c n_fan_auto true) FanSpeed_AUTO
      ++ opt_list fan_custom FanSpeed_MAX in
  let aux := [AuxHeatMode_OFF]
      ++ opt_list (cget c n_aux_electric_heat || cget c n_aux_heat_mode) AuxHeatMode_AUX_HEAT
      ++ opt_list (cget c n_aux_mode) AuxHeatMode_AUX_ONLY in
  let mins := N.min (chalf c s_cool_min 32) (N.min (chalf c s_auto_min 32) (chalf c s_heat_min 32)) in
  let maxs := N.max (chalf c s_cool_max 60) (N.max (chalf c s_auto_max 60) (chalf c s_heat_max 60)) in
  let rate5 := cget c n_rate5 in let rate2 := cget c n_rate2 in
  let props := opt_list (cget c n_swing_vertical_angle) PropertyId_SWING_UD_ANGLE
      ++ opt_list (cget c n_swing_horizontal_angle) PropertyId_SWING_LR_ANGLE
      ++ opt_list (cget c n_self_clean) PropertyId_SELF_CLEAN
      ++ opt_list (rate5 || rate2) PropertyId_RATE_SELECT
      ++ (if cget c n_breeze_control then [PropertyId_BREEZE_CONTROL]
          else opt_list (cget c n_breeze_away) PropertyId_BREEZE_AWAY ++ opt_list (cget c n_breezeless) PropertyId_BREEZELESS)
      ++ opt_list (cget c n_ieco) PropertyId_IECO in
  let rates := if rate5 then [RateSelect_OFF; RateSelect_LEVEL_5; RateSelect_LEVEL_4; RateSelect_LEVEL_3;
                              RateSelect_LEVEL_2; RateSelect_LEVEL_1]
               else if rate2 then [RateSelect_OFF; RateSelect_GEAR_75; RateSelect_GEAR_50]
               else d_sup_rates d in
  d <| d_sup_op_modes := op_modes |> <| d_sup_swing_modes := swing |> <| d_sup_fan_speeds := fans |>
    <| d_sup_custom_fan := fan_custom |> <| d_sup_eco := cget c n_eco |>
    <| d_sup_turbo := cget c n_turbo_heat || cget c n_turbo_cool |>
    <| d_sup_freeze := cget c n_freeze_protection |> <| d_sup_display := cget c n_display_control |>
    <| d_sup_filter := cget c n_filter_notice |> <| d_sup_purifier := cget c n_anion |>
    <| d_sup_aux_modes := aux |> <| d_min_temp := mins |> <| d_max_temp := maxs |>
    <| d_request_energy := d_request_energy d || cget c n_energy_stats |>
    <| d_sup_humidity := cget c n_humidity_auto_set || target_humidity |>
    <| d_sup_target_humidity := target_humidity |>
    <| d_sup_props := props |> <| d_sup_rates := rates |>.

(* ---------------- setters that record changed property ids ---------------- *)
Definition has_prop (d : dev) (p : N) : bool := mem p (d_sup_props d).
Definition mark (d : dev) (p : N) : dev := d <| d_upd_props := set_add p (d_upd_props d) |>.

Definition set_breeze_away (d : dev) (en : bool) : dev :=
  mark (d <| d_breeze := if en then BreezeMode_BREEZE_AWAY else BreezeMode_OFF |>)
       (if has_prop d PropertyId_BREEZE_CONTROL then PropertyId_BREEZE_CONTROL else PropertyId_BREEZE_AWAY).
Definition set_breeze_mild (d : dev) (en : bool) : dev :=
  mark (d <| d_breeze := if en then BreezeMode_BREEZE_MILD else BreezeMode_OFF |>) PropertyId_BREEZE_CONTROL.
Definition set_breezeless (d : dev) (en : bool) : dev :=
  mark (d <| d_breeze := if en then BreezeMode_BREEZELESS else BreezeMode_OFF |>)
       (if has_prop d PropertyId_BREEZE_CONTROL then PropertyId_BREEZE_CONTROL else PropertyId_BREEZELESS).
Definition set_hangle (d : dev) (v : N) : dev := mark (d <| d_hangle := v |>) PropertyId_SWING_LR_ANGLE.
Definition set_vangle (d : dev) (v : N) : dev := mark (d <| d_vangle := v |>) PropertyId_SWING_UD_ANGLE.
Definition set_ieco (d : dev) (b : bool) : dev := mark (d <| d_ieco := b |>) PropertyId_IECO.
Definition set_rate (d : dev) (v : N) : dev := mark (d <| d_rate := v |>) PropertyId_RATE_SELECT.

(* _PROPERTY_MAP *)
Definition property_value (d : dev) (p : N) : N :=
  if p =? PropertyId_BREEZE_AWAY then b2n (d_breeze d =? BreezeMode_BREEZE_AWAY)
  else if p =? PropertyId_BREEZE_CONTROL then d_breeze d
  else if p =? PropertyId_BREEZELESS then b2n (d_breeze d =? BreezeMode_BREEZELESS)
  else if p =? PropertyId_IECO then b2n (d_ieco d)
  else if p =? PropertyId_RATE_SELECT then d_rate d
  else if p =? PropertyId_SWING_LR_ANGLE then d_hangle d
  else d_vangle d.

(* the SetStateCommand built by apply() *)
Definition apply_ctrl (d : dev) : ctrl := {|
  c_beep := d_beep d; c_power := d_power d;
  c_tint := Z.of_N (d_target d / 2); c_tfrac := negb (d_target d mod 2 =? 0);
  c_mode := d_mode d; c_fan := d_fan d; c_swing := d_swing d;
  c_eco := d_eco d; c_turbo := d_turbo d; c_fahrenheit := d_fahrenheit d; c_sleep := d_sleep d;
  c_freeze := match d_freeze d with Some b => b | None => false end;
  c_follow_me := d_follow_me d; c_purifier := d_purifier d;
  c_humidity := match d_humidity d with Some h => h | None => 40 end;
  c_aux_heat := d_aux_mode d =? AuxHeatMode_AUX_HEAT; c_force_aux := false;
  c_indep_aux := d_aux_mode d =? AuxHeatMode_AUX_ONLY |}.

(* ---------------- operations, closed over an abstract peer ---------------- *)
Section Ops.
  Variable P : Type.
  (* what Device._send_command returns for one transmitted frame ([] on timeout / protocol error) *)
  Variable peer : P -> bytes -> P * list bytes.

  Record world := mkWorld { w_dev : dev; w_peer : P; w_counter : N; w_sent : list cmd }.
  Definition outcome := (world * option exn)%type.

  (* _send_command_get_responses: undecodable frames are skipped; any other exception propagates *)
  Fixpoint valid_responses (frames : list bytes) : res (list response) :=
    match frames with
    | [] => Ok []
    | f :: t =>
      match construct f with
      | Ok r => do rest <- valid_responses t; Ok (r :: rest)
      | Err EInvalidFrame | Err EInvalidResponse => valid_responses t
      | Err e => Err e
      end
    end.

  Definition send_get_responses (w : world) (c : cmd) : world * res (list response) :=
    match emit (w_counter w) c with
    | Err e => (w, Err e)
    | Ok (f, n') =>
      let (p', frames) := peer (w_peer w) f in
      let w1 := mkWorld (w_dev w) p' n' (w_sent w ++ [c]) in
      match valid_responses frames with
      | Err e => (w1, Err e)
      | Ok rs =>
        (mkWorld (w_dev w <| d_supported := negb (Nat.eqb (length rs) 0) |>) p' n' (w_sent w ++ [c]), Ok rs)
      end
    end.

  Definition upd_dev (w : world) (f : dev -> dev) : world :=
    mkWorld (f (w_dev w)) (w_peer w) (w_counter w) (w_sent w).

  Fixpoint send_all (w : world) (cs : list cmd) : world * res (list response) :=
    match cs with
    | [] => (w, Ok [])
    | c :: t =>
      match send_get_responses w c with
      | (w1, Err e) => (w1, Err e)
      | (w1, Ok rs) =>
        match send_all w1 t with
        | (w2, Err e) => (w2, Err e)
        | (w2, Ok rest) => (w2, Ok (rs ++ rest))
        end
      end
    end.

  Definition refresh_cmds (d : dev) : list cmd :=
    [GetState] ++ (if d_request_energy d then [GetEnergy] else [])
    ++ (if d_sup_humidity d then [GetHumidity] else [])
    ++ (match d_sup_props d with [] => [] | ps => [GetProps ps] end).

  Definition refresh (w : world) : outcome :=
    match send_all w (refresh_cmds (w_dev w)) with
    | (w1, Err e) => (w1, Some e)
    | (w1, Ok rs) =>
      (upd_dev w1 (fun d => fold_left update_state rs (d <| d_online := negb (Nat.eqb (length rs) 0) |>)), None)
    end.

  Definition apply_properties (w : world) (props : list (N * N)) : outcome :=
    let kvs := props ++ [(PropertyId_BUZZER, b2n (d_beep (w_dev w)))] in
    match send_get_responses w (SetProps kvs) with
    | (w1, Err e) => (w1, Some e)
    | (w1, Ok rs) => (upd_dev w1 (fun d => fold_left update_state rs d), None)
    end.

  Definition apply_op (w : world) : outcome :=
    match send_get_responses w (SetState (apply_ctrl (w_dev w))) with
    | (w1, Err e) => (w1, Some e)
    | (w1, Ok rs) =>
      let w2 := upd_dev w1 (fun d => fold_left update_state rs d) in
      match d_upd_props (w_dev w2) with
      | [] => (w2, None)
      | upd =>
        let ks := filter (fun k => mem k PROPERTY_MAP_keys) upd in
        match apply_properties w2 (map (fun k => (k, property_value (w_dev w2) k)) ks) with
        | (w3, Some e) => (w3, Some e)
        | (w3, None) => (upd_dev w3 (fun d => d <| d_upd_props := [] |>), None)
        end
      end
    end.

  Definition toggle_display (w : world) : outcome :=
    match send_get_responses w (ToggleDisplay (d_beep (w_dev w))) with
    | (w1, Err e) => (w1, Some e)
    | (w1, Ok _) => refresh w1
    end.

  Definition start_self_clean (w : world) : outcome := apply_properties w [(PropertyId_SELF_CLEAN, 1)].

  (* _send_command_get_response_with_id(cmd, CAPABILITIES): first response whose id byte is 0xB5 *)
  Definition first_caps (rs : list response) : option response :=
    find (fun r => response_id r =? ResponseId_CAPABILITIES) rs.

  Definition get_capabilities (w : world) : outcome :=
    match send_get_responses w (GetCaps false) with
    | (w1, Err e) => (w1, Some e)
    | (w1, Ok rs) =>
      match first_caps rs with
      | None => (w1, None)
      | Some (RCaps _ c more) =>
        if more then
          match send_get_responses w1 (GetCaps true) with
          | (w2, Err e) => (w2, Some e)
          | (w2, Ok rs2) =>
            match first_caps rs2 with
            | Some (RCaps _ c2 _) => (upd_dev w2 (fun d => update_capabilities d (cdict_merge c c2)), None)
            | _ => (upd_dev w2 (fun d => update_capabilities d c), None)   (* isinstance check (fix 8aa45f2) *)
            end
          end
        else (upd_dev w1 (fun d => update_capabilities d c), None)
      | Some _ => (w1, None)                  (* not a CapabilitiesResponse: treated as no response (fix 8aa45f2) *)
      end
    end.
End Ops.
Arguments mkWorld {P}. Arguments w_dev {P}. Arguments w_peer {P}. Arguments w_counter {P}. Arguments w_sent {P}.
Arguments send_get_responses {P}. Arguments send_all {P}. Arguments refresh {P}. Arguments apply_properties {P}.
Arguments apply_op {P}. Arguments toggle_display {P}. Arguments start_self_clean {P}. Arguments get_capabilities {P}.
Arguments upd_dev {P}.

(* the scripted peer used by the correspondence check: the k-th exchange returns the k-th frame list *)
Definition script_peer (p : list (list bytes)) (_ : bytes) : list (list bytes) * list bytes :=
  (tl p, hd [] p).
