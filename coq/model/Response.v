(* Faithful model of the response side of msmart/device/AC/command.py (Response.construct and the
   five parsers), including the exceptions Python raises. Definitions only. *)
From MS Require Import lib.Base gen.GenConst gen.GenCmd model.Frame model.Command.

(* Response.validate on payload = frame[10:-1] *)
Definition response_validate (payload : bytes) : res unit :=
  let body := slice_neg payload 0 1 in
  do lastb <- idx_neg payload 1;
  if negb (crc8 body =? lastb) && negb (checksum body =? lastb) then Err EInvalidResponse else Ok tt.

(* ---------------- StateResponse ---------------- *)
Record state_resp := {
  s_power : bool;
  s_target : N;               (* target temperature in half degrees *)
  s_mode : N; s_fan : N; s_swing : N;
  s_turbo : bool; s_indep_aux : bool; s_follow_me : bool;
  s_eco : bool; s_purifier : bool; s_aux : bool;
  s_sleep : bool; s_fahrenheit : bool;
  s_indoor : option Z;        (* tenths of a degree *)
  s_outdoor : option Z;
  s_filter : bool; s_display : bool;
  s_humidity : option N; s_freeze : option bool
}.

Definition tb (v m : N) : bool := negb (N.land v m =? 0).

(* _parse_temperature(data, nibble/10, fahrenheit), result in tenths; int() truncates toward zero *)
Definition parse_temperature (data k : N) (fahrenheit : bool) : option Z :=
  if data =? 255 then None else
  let d := (Z.of_N data - 50)%Z in
  let ip := Z.quot d 2 in
  let sgn (x : Z) : Z := if (0 <=? d)%Z then x else (- x)%Z in
  if negb fahrenheit && negb (k =? 0) then Some (10 * ip + sgn (Z.of_N k))%Z
  else if 5 <=? k then Some (10 * ip + sgn 5)%Z
  else Some (5 * d)%Z.

Definition parse_state (p : bytes) : res state_resp :=
  do b1 <- idx p 1; do b2 <- idx p 2; do b3 <- idx p 3; do b7 <- idx p 7; do b8 <- idx p 8;
  do b9 <- idx p 9; do b10 <- idx p 10; do b11 <- idx p 11; do b15 <- idx p 15;
  do b12 <- idx p 12; do b13 <- idx p 13; do b14 <- idx p 14;
  let half := if tb b2 16 then 1 else 0 in
  let fahrenheit := tb b10 4 in
  let alt := N.land b13 31 in
  let target := if alt =? 0 then 2 * (N.land b2 15 + 16) + half else 2 * (alt + 12) + half in
  let base := {|
    s_power := tb b1 1; s_target := target;
    s_mode := N.land (N.shiftr b2 5) 7; s_fan := b3; s_swing := N.land b7 15;
    s_turbo := tb b8 32 || tb b10 2; s_indep_aux := tb b8 64; s_follow_me := tb b8 128;
    s_eco := tb b9 16; s_purifier := tb b9 32; s_aux := tb b9 8;
    s_sleep := tb b10 1; s_fahrenheit := fahrenheit;
    s_indoor := parse_temperature b11 (N.land b15 15) fahrenheit;
    s_outdoor := parse_temperature b12 (N.shiftr b15 4) fahrenheit;
    s_filter := tb b13 32; s_display := negb (N.land b14 112 =? 112);
    s_humidity := None; s_freeze := None |} in
  if (length p <? 20)%nat then Ok base else
  let hum := Some (N.land (nthb p 19) 127) in
  let with_h := {|
    s_power := s_power base; s_target := s_target base; s_mode := s_mode base; s_fan := s_fan base;
    s_swing := s_swing base; s_turbo := s_turbo base; s_indep_aux := s_indep_aux base;
    s_follow_me := s_follow_me base; s_eco := s_eco base; s_purifier := s_purifier base; s_aux := s_aux base;
    s_sleep := s_sleep base; s_fahrenheit := s_fahrenheit base; s_indoor := s_indoor base;
    s_outdoor := s_outdoor base; s_filter := s_filter base; s_display := s_display base;
    s_humidity := hum; s_freeze := None |} in
  if (length p <? 22)%nat then Ok with_h else
  Ok {|
    s_power := s_power base; s_target := s_target base; s_mode := s_mode base; s_fan := s_fan base;
    s_swing := s_swing base; s_turbo := s_turbo base; s_indep_aux := s_indep_aux base;
    s_follow_me := s_follow_me base; s_eco := s_eco base; s_purifier := s_purifier base; s_aux := s_aux base;
    s_sleep := s_sleep base; s_fahrenheit := s_fahrenheit base; s_indoor := s_indoor base;
    s_outdoor := s_outdoor base; s_filter := s_filter base; s_display := s_display base;
    s_humidity := hum; s_freeze := Some (tb (nthb p 21) 128) |}.

(* ---------------- PropertiesResponse ---------------- *)
(* PropertyId.decode on data = props[4:]; None = "don't store" (buzzer) *)
Definition prop_decode (pid : N) (data : bytes) : res (option N) :=
  if negb (pid_supported pid) then Err ENotImpl
  else if (pid =? PropertyId_BREEZELESS) || (pid =? PropertyId_SELF_CLEAN) then
    do d0 <- idx data 0; Ok (Some (b2n (negb (d0 =? 0))))
  else if pid =? PropertyId_BREEZE_AWAY then do d0 <- idx data 0; Ok (Some (b2n (d0 =? 2)))
  else if pid =? PropertyId_BUZZER then Ok None
  else if pid =? PropertyId_IECO then do d1 <- idx data 1; Ok (Some (b2n (negb (d1 =? 0))))
  else do d0 <- idx data 0; Ok (Some d0).

Definition pdict := list (N * N).
Fixpoint pdict_update (d : pdict) (k v : N) : pdict :=
  match d with
  | [] => [(k, v)]
  | (k', v') :: t => if k' =? k then (k, v) :: t else (k', v') :: pdict_update t k v
  end.
Fixpoint pdict_get (d : pdict) (k : N) : option N :=
  match d with [] => None | (k', v) :: t => if k' =? k then Some v else pdict_get t k end.

Fixpoint parse_props_loop (count : nat) (props : bytes) (acc : pdict) : res pdict :=
  match count with
  | O => Ok acc
  | S count' =>
    if (length props <? 4)%nat then Ok acc else
    let size := nthb props 3 in
    if size =? 0 then parse_props_loop count' (skipn 4 props) acc else
    let raw_id := from_le (slice props 0 2) in
    let next := skipn (4 + N.to_nat size) props in
    if negb (pid_known raw_id) then parse_props_loop count' next acc else
    match prop_decode raw_id (skipn 4 props) with
    | Err ENotImpl => parse_props_loop count' next acc
    | Err e => Err e
    | Ok None => parse_props_loop count' next acc
    | Ok (Some v) => parse_props_loop count' next (pdict_update acc raw_id v)
    end
  end.

Definition parse_props (p : bytes) : res pdict :=
  do count <- idx p 1;
  parse_props_loop (N.to_nat count) (skipn 2 p) [].

(* ---------------- CapabilitiesResponse ---------------- *)
Inductive capval := CBool (b : bool) | CHalf (halves : N).
Definition cdict := list (bytes * capval).
Fixpoint cdict_update (d : cdict) (k : bytes) (v : capval) : cdict :=
  match d with
  | [] => [(k, v)]
  | (k', v') :: t => if beqb k' k then (k, v) :: t else (k', v') :: cdict_update t k v
  end.
Definition cdict_merge (a b : cdict) : cdict := fold_left (fun d kv => cdict_update d (fst kv) (snd kv)) b a.
Fixpoint cdict_get (d : cdict) (k : bytes) : option capval :=
  match d with [] => None | (k', v) :: t => if beqb k' k then Some v else cdict_get t k end.

Definition rpred_eval (r : rpred) (v : N) : bool :=
  match r with
  | PIn l => existsb (N.eqb v) l
  | PNotIn l => negb (existsb (N.eqb v) l)
  | PLt k => v <? k
  end.

Fixpoint readers_for (tbl : list (N * list (bytes * rpred))) (id : N) : option (list (bytes * rpred)) :=
  match tbl with [] => None | (k, rs) :: t => if k =? id then Some rs else readers_for t id end.

Definition capid_known (id : N) : bool := existsb (N.eqb id) CapabilityId_values.

Definition s_cool_min := [99;111;111;108;95;109;105;110;95;116;101;109;112;101;114;97;116;117;114;101].
Definition s_cool_max := [99;111;111;108;95;109;97;120;95;116;101;109;112;101;114;97;116;117;114;101].
Definition s_auto_min := [97;117;116;111;95;109;105;110;95;116;101;109;112;101;114;97;116;117;114;101].
Definition s_auto_max := [97;117;116;111;95;109;97;120;95;116;101;109;112;101;114;97;116;117;114;101].
Definition s_heat_min := [104;101;97;116;95;109;105;110;95;116;101;109;112;101;114;97;116;117;114;101].
Definition s_heat_max := [104;101;97;116;95;109;97;120;95;116;101;109;112;101;114;97;116;117;114;101].
Definition s_decimals := [100;101;99;105;109;97;108;115].

(* one iteration of the record loop: Some (caps', acc') to continue, None to break *)
Definition caps_step (caps : bytes) (acc : cdict) : res (option (bytes * cdict)) :=
  if (length caps <? 3)%nat then Ok None else
  let size := nthb caps 2 in
  if size =? 0 then Ok (Some (skipn 3 caps, acc)) else
  let raw_id := from_le (slice caps 0 2) in
  let next := skipn (3 + N.to_nat size) caps in
  if negb (capid_known raw_id) then Ok (Some (next, acc)) else
  do value <- idx caps 3;
  match readers_for capability_readers raw_id with
  | Some rs =>
      Ok (Some (next, fold_left (fun d r => cdict_update d (fst r) (CBool (rpred_eval (snd r) value))) rs acc))
  | None =>
    if raw_id =? CapabilityId_TEMPERATURES then
      if size <? 6 then Ok (Some (next, acc))       (* undersized: skipped (fix 45d1acc advances first) *)
      else
        do c3 <- idx caps 3; do c4 <- idx caps 4; do c5 <- idx caps 5; do c6 <- idx caps 6;
        do c7 <- idx caps 7; do c8 <- idx caps 8;
        do dec <- (if 6 <? size then idx caps 9 else Ok size);
        let acc := cdict_update acc s_cool_min (CHalf c3) in
        let acc := cdict_update acc s_cool_max (CHalf c4) in
        let acc := cdict_update acc s_auto_min (CHalf c5) in
        let acc := cdict_update acc s_auto_max (CHalf c6) in
        let acc := cdict_update acc s_heat_min (CHalf c7) in
        let acc := cdict_update acc s_heat_max (CHalf c8) in
        let acc := cdict_update acc s_decimals (CBool (negb (dec =? 0))) in
        Ok (Some (next, acc))
    else Ok (Some (next, acc))
  end.

Fixpoint caps_loop (count : nat) (caps : bytes) (acc : cdict) : res (bytes * cdict) :=
  match count with
  | O => Ok (caps, acc)
  | S count' =>
    do r <- caps_step caps acc;
    match r with
    | None => Ok (caps, acc)
    | Some (caps', acc') => caps_loop count' caps' acc'
    end
  end.

(* -> (capability dict, additional_capabilities flag) *)
Definition parse_caps (p : bytes) : res (cdict * bool) :=
  do count <- idx p 1;
  do '(rest, d) <- caps_loop (N.to_nat count) (skipn 2 p) [];
  if (1 <? length rest)%nat then Ok (d, negb (nthb rest (length rest - 2) =? 0)) else Ok (d, false).

(* ---------------- EnergyUsageResponse / HumidityResponse ---------------- *)
Definition bcd (d : N) : N := 10 * N.shiftr d 4 + N.land d 15.
Record energy_resp := {
  e_valid : bool;
  e_total : N; e_current : N;     (* BCD, hundredths of a kWh *)
  e_power : N;                    (* BCD, tenths of a W *)
  e_total_bin : N; e_current_bin : N; e_power_bin : N    (* binary, tenths *)
}.
Definition parse_energy4 (d : bytes) : res (N * N) :=
  do d0 <- idx d 0; do d1 <- idx d 1; do d2 <- idx d 2; do d3 <- idx d 3;
  Ok (1000000 * bcd d0 + 10000 * bcd d1 + 100 * bcd d2 + bcd d3,
      N.shiftl d0 24 + N.shiftl d1 16 + N.shiftl d2 8 + d3).
Definition parse_power3 (d : bytes) : res (N * N) :=
  do d0 <- idx d 0; do d1 <- idx d 1; do d2 <- idx d 2;
  Ok (10000 * bcd d0 + 100 * bcd d1 + bcd d2, N.shiftl d0 16 + N.shiftl d1 8 + d2).
Definition parse_energy (p : bytes) : res energy_resp :=
  do '(t, tb_) <- parse_energy4 (slice p 4 8);
  do '(c, cb) <- parse_energy4 (slice p 12 16);
  do '(w, wb) <- parse_power3 (slice p 16 19);
  Ok {| e_valid := negb ((t =? 0) && (c =? 0) && (w =? 0));
        e_total := t; e_current := c; e_power := w;
        e_total_bin := tb_; e_current_bin := cb; e_power_bin := wb |}.

Definition parse_humidity (p : bytes) : res (option N) :=
  do h <- idx p 4; Ok (if h =? 0 then None else Some h).

(* ---------------- Response.construct ---------------- *)
Inductive response :=
| RState (id : N) (s : state_resp)
| RCaps (id : N) (d : cdict) (more : bool)
| RProps (id : N) (d : pdict)
| REnergy (id : N) (e : energy_resp)
| RHumidity (id : N) (h : option N)
| RBase (id : N).

Definition response_id (r : response) : N :=
  match r with RState i _ | RCaps i _ _ | RProps i _ | REnergy i _ | RHumidity i _ | RBase i => i end.

Inductive rclass := KState | KCaps | KProps | KEnergy | KHumidity | KBase.

Definition classify (frame : bytes) : res rclass :=
  do ft <- idx frame 9;
  do rid <- idx frame 10;
  if rid =? ResponseId_STATE then Ok KState
  else if (rid =? ResponseId_CAPABILITIES) && (ft =? FrameType_QUERY) then Ok KCaps
  else if (rid =? ResponseId_PROPERTIES) || (rid =? ResponseId_PROPERTIES_ACK) then Ok KProps
  else if rid =? ResponseId_GROUP_DATA then
    do g <- idx frame 13;
    let group := N.land g 15 in
    Ok (if group =? 4 then KEnergy else if group =? 5 then KHumidity else KBase)
  else Ok KBase.

Definition construct_raw (frame : bytes) : res response :=
  do _ <- frame_validate frame;
  do k <- classify frame;
  do _ <- (match k with KProps => Ok tt | _ => response_validate (slice_neg frame 10 1) end);
  let payload := slice_neg frame 10 2 in
  do id <- idx payload 0;
  match k with
  | KState => do s <- parse_state payload; Ok (RState id s)
  | KCaps => do '(d, more) <- parse_caps payload; Ok (RCaps id d more)
  | KProps => do d <- parse_props payload; Ok (RProps id d)
  | KEnergy => do e <- parse_energy payload; Ok (REnergy id e)
  | KHumidity => do h <- parse_humidity payload; Ok (RHumidity id h)
  | KBase => Ok (RBase id)
  end.

(* Response.construct: the whole body sits in  try: ... except (IndexError, struct.error): raise
   InvalidResponseException  (fix 36444fc) *)
Definition construct (frame : bytes) : res response :=
  catch (construct_raw frame) [EIndex; EStruct] (fun _ => Err EInvalidResponse).
