(* Faithful model of the command side of msmart/device/AC/command.py. Definitions only. *)
From MS Require Import lib.Base gen.GenConst gen.GenCmd model.Frame.

(* Command.tobytes with the class-level, unbounded message counter threaded explicitly *)
Definition cmd_tobytes (counter ft : N) (data : bytes) : res (bytes * N) :=
  let counter' := counter + 1 in
  let payload := data ++ [N.land counter' 255] in
  do f <- frame_tobytes DeviceType_AIR_CONDITIONER ft (payload ++ [crc8 payload]);
  Ok (f, counter').

Record ctrl := {
  c_beep : bool; c_power : bool;
  c_tint : Z;            (* integral part of target_temperature (math.modf) *)
  c_tfrac : bool;        (* fractional part > 0 *)
  c_mode : N; c_fan : N; c_swing : N;
  c_eco : bool; c_turbo : bool; c_fahrenheit : bool; c_sleep : bool;
  c_freeze : bool; c_follow_me : bool; c_purifier : bool;
  c_humidity : N;
  c_aux_heat : bool; c_force_aux : bool; c_indep_aux : bool
}.

Definition flag (b : bool) (m : N) : N := if b then m else 0.

(* the 24 body bytes of SetStateCommand before id/crc; bytes([...]) raises ValueError for any
   element outside 0..255 - only fan_speed is passed through unmasked *)
Definition set_state_body (c : ctrl) : res bytes :=
  let prim := andb (17 <=? c_tint c)%Z (c_tint c <=? 30)%Z in
  let temperature := if prim then N.land (Z.to_N (c_tint c - 16)) 15 else 0 in
  let temperature_alt := if prim then 0 else Z.to_N (Z.land (c_tint c - 12) 31) in
  let temperature := N.lor temperature (flag (c_tfrac c) 16) in
  let mode := N.shiftl (N.land (c_mode c) 7) 5 in
  let swing := N.lor 48 (N.land (c_swing c) 63) in
  if 255 <? c_fan c then Err EValue else
  Ok [ 64;
       N.lor (N.lor CONTROL_SOURCE (flag (c_beep c) 64)) (flag (c_power c) 1);
       N.lor temperature mode;
       c_fan c;
       127; 127; 0;
       swing;
       N.lor (flag (c_follow_me c) 128) (flag (c_turbo c) 32);
       N.lor (N.lor (N.lor (flag (c_eco c) 128) (flag (c_purifier c) 32)) (flag (c_force_aux c) 16))
             (flag (c_aux_heat c) 8);
       N.lor (N.lor (flag (c_sleep c) 1) (flag (c_turbo c) 2)) (flag (c_fahrenheit c) 4);
       0; 0; 0; 0; 0; 0; 0;
       temperature_alt;
       N.land (c_humidity c) 127;
       0;
       flag (c_freeze c) 128;
       flag (c_indep_aux c) 8;
       0 ].

Definition pid_supported (p : N) : bool := existsb (N.eqb p) PropertyId_supported.
Definition pid_known (p : N) : bool := existsb (N.eqb p) PropertyId_values.

(* PropertyId.encode(value); value is an int (bool as 0/1) *)
Definition prop_encode (p v : N) : res bytes :=
  if negb (pid_supported p) then Err ENotImpl
  else if p =? PropertyId_BREEZE_AWAY then Ok [if v =? 0 then 1 else 2]
  else if p =? PropertyId_IECO then
    (if 255 <? v then Err EValue else Ok ([0; 1; v] ++ zeros 10))
  else if 255 <? v then Err EValue else Ok [v].

Fixpoint set_props_records (kvs : list (N * N)) : res bytes :=
  match kvs with
  | [] => Ok []
  | (p, v) :: t =>
    do e <- prop_encode p v;
    do rest <- set_props_records t;
    (* bytes([len(value)]) cannot overflow: encodings are at most 13 bytes *)
    Ok (le_bytes 2 p ++ [N.of_nat (length e)] ++ e ++ rest)
  end.

Inductive cmd :=
| GetCaps (additional : bool)
| GetState
| GetEnergy
| GetHumidity
| SetState (c : ctrl)
| ToggleDisplay (beep : bool)
| GetProps (ids : list N)
| SetProps (kvs : list (N * N)).

Definition cmd_frame_type (c : cmd) : N :=
  match c with
  | SetState _ | SetProps _ => FrameType_CONTROL
  | _ => FrameType_QUERY
  end.

Definition cmd_body (c : cmd) : res bytes :=
  match c with
  | GetCaps false => Ok [181; 1; 0]
  | GetCaps true => Ok [181; 1; 1; 1]
  | GetState => Ok ([65; 129; 0; 255; 3; 255; 0; TemperatureType_INDOOR] ++ zeros 12 ++ [3])
  | GetEnergy => Ok ([65; 33; 1; 68] ++ zeros 16)
  | GetHumidity => Ok ([65; 33; 1; 69] ++ zeros 16)
  | SetState c => set_state_body c
  | ToggleDisplay beep =>
      Ok ([65; N.lor CONTROL_SOURCE (flag beep 64); 0; 255; 2; 0; 2; 0; 0] ++ zeros 12)
  | GetProps ids =>
      if (255 <? length ids)%nat then Err EValue
      else Ok ([177; N.of_nat (length ids)] ++ flat_map (le_bytes 2) ids)
  | SetProps kvs =>
      if (255 <? length kvs)%nat then Err EValue
      else do r <- set_props_records kvs; Ok ([176; N.of_nat (length kvs)] ++ r)
  end.

(* <Command>.tobytes() *)
Definition emit (counter : N) (c : cmd) : res (bytes * N) :=
  do body <- cmd_body c;
  cmd_tobytes counter (cmd_frame_type c) body.

(* a sequence of commands; the counter advances even ... only on success (body errors are raised
   before _next_message_id is called) *)
Fixpoint emit_seq (counter : N) (cs : list cmd) : res (list bytes) :=
  match cs with
  | [] => Ok []
  | c :: t => do '(f, n') <- emit counter c; do r <- emit_seq n' t; Ok (f :: r)
  end.
