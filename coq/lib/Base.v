(* Base conventions: byte strings, Python exceptions as values, Python slices. *)
From Coq Require Export NArith ZArith List Bool Lia.
Export ListNotations.
Open Scope N_scope.

Definition bytes := list N.
Definition wfb (l : bytes) : Prop := Forall (fun b => b < 256) l.
Definition wfbb (l : bytes) : bool := forallb (fun b => b <? 256) l.

(* The Python exception classes the modelled code can raise. *)
Inductive exn :=
| EIndex | EValue | EStruct | EKey | EAssert | EType | EOverflow
| EInvalidFrame | EInvalidResponse | EProtocol | EAuth | ETimeout
| ECancelled | EQueueEmpty | EDiscover | ENotImpl | ECloud | EApi | EOS
| EUnicode | EAddr | ESyntax | EAttr.

Definition exn_code (e : exn) : Z :=
  match e with
  | EIndex => 1 | EValue => 2 | EStruct => 3 | EKey => 4 | EAssert => 5
  | EType => 6 | EOverflow => 7 | EInvalidFrame => 8 | EInvalidResponse => 9
  | EProtocol => 10 | EAuth => 11 | ETimeout => 12 | ECancelled => 13
  | EQueueEmpty => 14 | EDiscover => 15 | ENotImpl => 16 | ECloud => 17
  | EApi => 18 | EOS => 19 | EUnicode => 20 | EAddr => 21 | ESyntax => 22
  | EAttr => 23
  end%Z.

Definition exn_eqb (a b : exn) : bool := Z.eqb (exn_code a) (exn_code b).

(* Python's subclass relation restricted to the classes above:
   AuthenticationError < ProtocolError, UnicodeDecodeError < ValueError,
   AddressValueError < ValueError, ApiError < CloudError. *)
Definition subclass (e parent : exn) : bool :=
  exn_eqb e parent ||
  match e, parent with
  | EAuth, EProtocol => true
  | EUnicode, EValue => true
  | EAddr, EValue => true
  | EApi, ECloud => true
  | _, _ => false
  end.

Inductive res (A : Type) := Ok (a : A) | Err (e : exn).
Arguments Ok {A} a.
Arguments Err {A} e.

Definition bind {A B} (r : res A) (f : A -> res B) : res B :=
  match r with Ok a => f a | Err e => Err e end.
Notation "'do' x <- r ; k" := (bind r (fun x => k))
  (at level 200, x name, r at level 100, k at level 200).
Notation "'do' ' p <- r ; k" := (bind r (fun x => let 'p := x in k))
  (at level 200, p pattern, r at level 100, k at level 200).

(* try: r  except classes in [cs]: handler *)
Definition catch {A} (r : res A) (cs : list exn) (h : exn -> res A) : res A :=
  match r with
  | Ok a => Ok a
  | Err e => if existsb (subclass e) cs then h e else Err e
  end.

Definition is_ok {A} (r : res A) : bool := match r with Ok _ => true | Err _ => false end.

(* indexing with a non-negative index *)
Definition idx (l : bytes) (n : nat) : res N :=
  match nth_error l n with Some b => Ok b | None => Err EIndex end.
(* l[-k] for k >= 1 *)
Definition idx_neg (l : bytes) (k : nat) : res N :=
  if Nat.ltb (length l) k then Err EIndex
  else if Nat.eqb k 0 then idx l 0 else idx l (length l - k).

Definition nthb (l : bytes) (n : nat) : N := nth n l 0.

(* l[a:b] with 0 <= a, 0 <= b (Python clamps both ends) *)
Definition slice {A} (l : list A) (a b : nat) : list A := firstn (b - a) (skipn a l).
(* l[a:] *)
Definition slice_from {A} (l : list A) (a : nat) : list A := skipn a l.
(* l[a:-k] for a literal-or-computed k >= 0 : Python reads -0 as 0, so k = 0 gives l[a:0] *)
Definition slice_neg {A} (l : list A) (a k : nat) : list A :=
  if Nat.eqb k 0 then slice l a 0 else slice l a (length l - k).
(* l[-k:] for k >= 1 (k = 0 would be l[0:], the whole list) *)
Definition last_n {A} (l : list A) (k : nat) : list A :=
  if Nat.eqb k 0 then l else skipn (length l - k) l.

Fixpoint sumN (l : bytes) : N := match l with [] => 0 | b :: t => b + sumN t end.

Fixpoint zeros (n : nat) : bytes := match n with O => [] | S k => 0 :: zeros k end.

(* integers <-> bytes *)
Fixpoint le_bytes (n : nat) (v : N) : bytes :=
  match n with O => [] | S k => (v mod 256) :: le_bytes k (v / 256) end.
Definition be_bytes (n : nat) (v : N) : bytes := rev (le_bytes n v).
Fixpoint from_le (l : bytes) : N := match l with [] => 0 | b :: t => b + 256 * from_le t end.
Definition from_be (l : bytes) : N := from_le (rev l).
(* int.to_bytes(n, ...) raises OverflowError when v >= 256^n *)
Definition to_bytes_le (n : nat) (v : N) : res bytes :=
  if v <? 256 ^ N.of_nat n then Ok (le_bytes n v) else Err EOverflow.
Definition to_bytes_be (n : nat) (v : N) : res bytes :=
  if v <? 256 ^ N.of_nat n then Ok (be_bytes n v) else Err EOverflow.

Fixpoint beqb (a b : bytes) : bool :=
  match a, b with
  | [], [] => true
  | x :: a', y :: b' => (x =? y) && beqb a' b'
  | _, _ => false
  end.

Definition bit (v : N) (k : N) : bool := N.testbit v k.
Definition b2n (b : bool) : N := if b then 1 else 0.

(* bytes.find(two-byte marker) *)
Fixpoint find2 (m0 m1 : N) (l : bytes) : option nat :=
  match l with
  | [] => None
  | a :: t =>
    match t with
    | b :: _ => if (a =? m0) && (b =? m1) then Some O
                else option_map S (find2 m0 m1 t)
    | [] => None
    end
  end.
