(* How Python reads a command-line value: ASCII case mapping (str.upper / str.lower / str.capitalize restricted to
   ASCII strings) and a CLASSIFICATION of what ast.literal_eval(s) gives. [lit] covers a small, explicitly delimited
   grammar (no white space, no underscores, at most 40 characters):
     empty string | True | False | None | identifiers and keywords | [+-] decimal integer without leading zeros |
     [+-] decimal point / exponent floats with an exponent of at most two digits
   and answers None outside it.  Everything outside that grammar is classified by the real ast.literal_eval in the
   harness and handed to the model as data; on the grammar [lit] itself is compared with ast.literal_eval on every run.
   Definitions only. *)
From MS Require Import lib.Base.
Open Scope N_scope.

Definition is_lower (c : N) : bool := (97 <=? c) && (c <=? 122).
Definition is_upper (c : N) : bool := (65 <=? c) && (c <=? 90).
Definition is_digit (c : N) : bool := (48 <=? c) && (c <=? 57).
Definition up (c : N) : N := if is_lower c then c - 32 else c.
Definition low (c : N) : N := if is_upper c then c + 32 else c.
Definition upper (s : bytes) : bytes := map up s.
Definition lower (s : bytes) : bytes := map low s.
(* str.capitalize: first character upper-cased, the rest lower-cased *)
Definition capitalize (s : bytes) : bytes := match s with [] => [] | c :: t => up c :: lower t end.
Definition ascii (s : bytes) : bool := forallb (fun c => c <? 128) s.

(* what ast.literal_eval(s) does *)
Inductive lit_class :=
| LInt (z : Z)                        (* an int *)
| LBool (b : bool)
| LFloat (num : Z) (den : positive)   (* a finite float with exact value num/den *)
| LStr (s : bytes)                    (* a str *)
| LNone
| LObj (truthy : bool)                (* list / tuple / dict / set / complex / Ellipsis: no .upper(), not a number *)
| LRaise (e : exn).                   (* ValueError (malformed node), SyntaxError, ... *)

Definition s_True : bytes := [84; 114; 117; 101].
Definition s_False : bytes := [70; 97; 108; 115; 101].
Definition s_None : bytes := [78; 111; 110; 101].

(* the hard keywords other than True / False / None: none of them is an expression on its own (SyntaxError) *)
Definition kw_syntax : list bytes :=
  [ [97;110;100]; [97;115]; [97;115;115;101;114;116]; [97;115;121;110;99]; [97;119;97;105;116];
    [98;114;101;97;107]; [99;108;97;115;115]; [99;111;110;116;105;110;117;101]; [100;101;102]; [100;101;108];
    [101;108;105;102]; [101;108;115;101]; [101;120;99;101;112;116]; [102;105;110;97;108;108;121]; [102;111;114];
    [102;114;111;109]; [103;108;111;98;97;108]; [105;102]; [105;109;112;111;114;116]; [105;110]; [105;115];
    [108;97;109;98;100;97]; [110;111;110;108;111;99;97;108]; [110;111;116]; [111;114]; [112;97;115;115];
    [114;97;105;115;101]; [114;101;116;117;114;110]; [116;114;121]; [119;104;105;108;101]; [119;105;116;104];
    [121;105;101;108;100] ].

Definition is_ident_start (c : N) : bool := is_lower c || is_upper c || (c =? 95).
Definition is_ident_char (c : N) : bool := is_ident_start c || is_digit c.
Definition is_ident (s : bytes) : bool :=
  match s with [] => false | c :: t => is_ident_start c && forallb is_ident_char t end.

Definition in_list (s : bytes) (l : list bytes) : bool := existsb (beqb s) l.

(* first occurrence of a character satisfying p: (before, after) *)
Fixpoint split_on (p : N -> bool) (s : bytes) : option (bytes * bytes) :=
  match s with
  | [] => None
  | c :: t => if p c then Some ([], t)
              else match split_on p t with Some (a, b) => Some (c :: a, b) | None => None end
  end.

Fixpoint dval (s : bytes) (acc : Z) : Z :=
  match s with [] => acc | c :: t => dval t (10 * acc + Z.of_N (c - 48))%Z end.
Definition all_digits (s : bytes) : bool := forallb is_digit s.

(* mantissa * 10^e as an exact fraction *)
Definition mkfloat (m e : Z) : lit_class :=
  if (0 <=? e)%Z then LFloat (m * 10 ^ e)%Z 1 else LFloat m (Z.to_pos (10 ^ (- e))%Z).

Definition exponent (s : bytes) : option Z :=
  let digits_of (d : bytes) (sign : Z) :=
    if all_digits d && (1 <=? length d)%nat && (length d <=? 2)%nat then Some (sign * dval d 0)%Z else None in
  match s with
  | 45 :: d => digits_of d (-1)%Z
  | 43 :: d => digits_of d 1%Z
  | d => digits_of d 1%Z
  end.

Definition unsigned_number (s : bytes) : option lit_class :=
  let '(mant, ex) := match split_on (fun c => (c =? 101) || (c =? 69)) s with
                     | Some (m, e) => (m, Some e) | None => (s, None) end in
  let '(ip, fp, has_dot) := match split_on (fun c => c =? 46) mant with
                            | Some (i, f) => (i, f, true) | None => (mant, [], false) end in
  if negb (all_digits ip && all_digits fp) then None
  else if (length ip + length fp =? 0)%nat then None
  else
    let m := dval (ip ++ fp) 0 in
    let k := Z.of_nat (length fp) in
    match ex with
    | Some e => match exponent e with Some x => Some (mkfloat m (x - k)) | None => None end
    | None =>
      if has_dot then Some (mkfloat m (- k))
      else match ip with
           | [48] => Some (LInt 0)
           | 48 :: _ => None              (* leading zeros: outside the modelled grammar *)
           | _ => Some (LInt m)
           end
    end.

Definition neg_class (c : lit_class) : lit_class :=
  match c with LInt z => LInt (- z) | LFloat n d => LFloat (- n) d | c => c end.

Definition lit (s : bytes) : option lit_class :=
  if (40 <? length s)%nat then None
  else match s with
  | [] => Some (LRaise ESyntax)
  | c :: t =>
    if is_ident s then
      if beqb s s_True then Some (LBool true)
      else if beqb s s_False then Some (LBool false)
      else if beqb s s_None then Some LNone
      else if in_list s kw_syntax then Some (LRaise ESyntax)
      else Some (LRaise EValue)
    else if c =? 45 then option_map neg_class (unsigned_number t)
    else if c =? 43 then unsigned_number t
    else unsigned_number s
  end.
