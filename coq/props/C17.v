(* C17 - discovery reports each replying device with exactly its advertised identity. Statements only. *)
From MS Require Import lib.Base gen.GenConst gen.GenDisc model.Lan model.Discover spec.RefDiscover proofs.DiscoverProofs.
Local Open Scope N_scope.

(* For EVERY 48-bit device id, port below 65536, 32-byte text serial number, appliance type byte, name
   net_<type hex>_<ASCII suffix>, reported IP (equal to the source address or not), header filler and extra payload:
   the reference appliance's V2 reply is recognised as version 2 and parsed to exactly that identity, with the address the
   datagram came from. *)
Theorem C17_v2_identity : forall ip hdr12 hdr14 id rip port sn name ty sfx extra,
  length hdr12 = 12%nat -> length hdr14 = 14%nat -> id < 2 ^ 48 ->
  length rip = 4%nat -> wfb rip -> port < 65536 -> length sn = 32%nat -> wfb sn -> utf8_valid sn = true -> ty < 256 ->
  Forall (fun b => b < 128) sfx -> name = ref_name ty sfx -> (length name < 256)%nat -> wfb extra ->
  N.of_nat (length extra) <= 50000 ->
  exists r, ref_discovery_reply 2 hdr12 hdr14 id rip port sn name extra [] = Some r
            /\ get_device_version 0 r = Ok 2
            /\ get_device_info ip 2 0 r = Ok (mkInfo ip port id name sn (Z.of_N ty) 2).
Proof. exact reference_reply_v2_parsed. Qed.
Print Assumptions C17_v2_identity.

(* the same for the V3 wrapper (8-byte header, 16 trailing bytes) *)
Theorem C17_v3_identity : forall ip hdr12 hdr14 id rip port sn name ty sfx extra tail16,
  length hdr12 = 12%nat -> length hdr14 = 14%nat -> id < 2 ^ 48 ->
  length rip = 4%nat -> wfb rip -> port < 65536 -> length sn = 32%nat -> wfb sn -> utf8_valid sn = true -> ty < 256 ->
  Forall (fun b => b < 128) sfx -> name = ref_name ty sfx -> (length name < 256)%nat -> wfb extra ->
  N.of_nat (length extra) <= 50000 -> length tail16 = 16%nat ->
  exists r, ref_discovery_reply 3 hdr12 hdr14 id rip port sn name extra tail16 = Some r
            /\ get_device_version 0 r = Ok 3
            /\ get_device_info ip 3 0 r = Ok (mkInfo ip port id name sn (Z.of_N ty) 3).
Proof. exact reference_reply_v3_parsed. Qed.
Print Assumptions C17_v3_identity.

(* through a discovery run: a recognised and parsed reply is the run's (only) result, under its source address *)
Theorem C17_reported : forall g i, g_xml g = 0 -> get_device_version 0 (g_data g) = Ok (i_version i) ->
  get_device_info (g_ip g) (i_version i) 0 (g_data g) = Ok i -> discover [g] = Ok [i] /\ i_ip i = g_ip g.
Proof.
  intros g i Hx Hv Hi. split; [exact (single_reply_reported g i Hx Hv Hi)|exact (get_device_info_ip _ _ _ _ _ Hi)].
Qed.
Print Assumptions C17_reported.

(* air conditioners, and only they, are instantiated as the controllable AC class *)
Theorem C17_class : forall ty, is_ac ty = true <-> ty = 172%Z.
Proof. exact class_is_ac. Qed.
Print Assumptions C17_class.

(* the probe (regenerated from msmart/const.py) is one the reference appliance answers - 72 bytes, length field 72, broadcast
   type 0x0092, keyed-MD5 signature over the first 56 bytes, decryptable payload - and it goes to ports 6445 and 20086,
   discovery_packets times each *)
Theorem C17_probe : ref_probe_ok DISCOVERY_MSG = true /\ DISCOVERY_PORTS = ref_probe_ports
  /\ forall n, probes n = repeat (6445, DISCOVERY_MSG) n ++ repeat (20086, DISCOVERY_MSG) n.
Proof. exact (conj probe_answerable (conj probe_ports probes_sent)). Qed.
Print Assumptions C17_probe.

Example C17_nonvacuous :
  match ref_discovery_reply 3 (zeros 12) (zeros 14) 15393162840672 [10; 100; 1; 140] 6444
          [48;48;48;48;48;48;80;48;48;48;48;48;48;48;81;49;70;48;67;57;68;49;53;51;70;55;66;52;48;48;48;48]
          (ref_name 172 [70; 55; 66; 52]) [1; 2; 3] (zeros 16) with
  | Some r => match get_device_info 77 3 0 r with
              | Ok i => (i_ip i =? 77) && (i_port i =? 6444) && (i_id i =? 15393162840672) && is_ac (i_type i)
              | Err _ => false end
  | None => false end = true.
Proof. vm_compute. reflexivity. Qed.
