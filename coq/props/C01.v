(* C01 - end-to-end fidelity. Statements only: compositions of the per-layer theorems (C10, C12, C02, C05, C04, C11) along
   the two directions of the property, against the ideal appliance of spec/RefDevice (reference packet parsers/builders,
   reference frame parser/builder, vendor control decoder / status layout). *)
From MS Require Import lib.Base gen.GenConst gen.GenDev model.Frame model.Command model.Response model.Device model.Lan
  spec.RefFrame spec.RefAC spec.RefLan spec.RefDevice
  model.Session proofs.ControlProofs proofs.StateProofs proofs.LanV2Proofs proofs.LanV3Proofs proofs.StreamProofs proofs.E2EProofs.
Local Open Scope N_scope.

(* APPLY, V2: for EVERY settable attribute state (13.0-43.5 C in half degrees, modes 0-7, fan 0-127, swing nibble, humidity
   0-127, every flag combination, aux mode), message counter, timestamp and device id below 2^64: the bytes the client writes
   are parsed by the reference appliance into a frame it accepts whose body the vendor decoder reads as exactly the requested
   state, and the appliance ends up in that state (display and sensors untouched). *)
Theorem C01_apply_v2 : forall d n ts id (s : astate),
  valid_dev d -> length ts = 8%nat -> id < 2 ^ 64 ->
  exists f p,
    emit n (SetState (apply_ctrl d)) = Ok (f, n + 1)
    /\ v2_encode ts id f = Ok p
    /\ ref_v2_parse p = Some (id, f)
    /\ dev_accepts FrameType_CONTROL f = true
    /\ ref_decode_control (frame_body f) = Some (requested d)
    /\ fst (ref_ac_step s (frame_body f)) = adopt s (requested d).
Proof. exact e2e_apply_v2. Qed.
Print Assumptions C01_apply_v2.

(* APPLY, V3: the same through the encrypted request, for every 32-byte session key, packet counter and padding source *)
Theorem C01_apply_v3 : forall d n ts id key pid rnd (s : astate),
  valid_dev d -> wfb ts -> length ts = 8%nat -> id < 2 ^ 64 -> key32 key -> pid < 65536 -> wfb rnd -> (16 <= length rnd)%nat ->
  exists f p p3,
    emit n (SetState (apply_ctrl d)) = Ok (f, n + 1)
    /\ v2_encode ts id f = Ok p
    /\ v3_encode_request (Some key) pid p rnd = Ok p3
    /\ ref_v3_parse_request key p3 = Some (pid, p)
    /\ ref_v2_parse p = Some (id, f)
    /\ dev_accepts FrameType_CONTROL f = true
    /\ fst (ref_ac_step s (frame_body f)) = adopt s (requested d).
Proof. exact e2e_apply_v3. Qed.
Print Assumptions C01_apply_v3.

(* the appliance's status body is read by the vendor status decoder as exactly its state *)
Theorem C01_status_body : forall s, valid_astate s ->
  ref_report (status_body s) = Some (report_of s) /\ wfb (status_body s) /\ length (status_body s) = 24%nat
  /\ nthb (status_body s) 3 < 128 /\ nthb (status_body s) 0 = 192.
Proof. exact status_body_reports. Qed.
Print Assumptions C01_status_body.

(* REFRESH, V2: for EVERY appliance state and every client state d (any instance): the reference-built packet around the
   status frame is decoded by the client to that frame, constructed into a state response, and the attributes the client
   then exposes are the reference reading of the appliance's state *)
Theorem C01_refresh_v2 : forall s ft m ts id h d,
  valid_astate s -> ft < 256 -> length m = 4%nat -> length ts = 8%nat -> length h = 12%nat ->
  exists p st,
    ref_v2_build m ts id h (ref_response_frame ft (status_body s)) = Some p
    /\ v2_decode p = Ok (ref_response_frame ft (status_body s))
    /\ construct (ref_response_frame ft (status_body s)) = Ok (RState 192 st)
    /\ view_of_dev (update_state d (RState 192 st)) = expected_view (d_sup_custom_fan d) (report_of s).
Proof. exact e2e_report_v2. Qed.
Print Assumptions C01_refresh_v2.

(* REFRESH, V3: additionally encrypted under the session key and cut into ARBITRARY TCP segments: the packet is queued exactly
   once, complete, and decodes back through all layers to the same attributes *)
Theorem C01_refresh_v3 : forall s ft m ts id h key counter rnd d,
  valid_astate s -> ft < 256 -> wfb m -> wfb ts -> wfb h -> length m = 4%nat -> length ts = 8%nat -> length h = 12%nat ->
  key32 key -> counter < 65536 -> wfb rnd -> (16 <= length rnd)%nat ->
  exists p p3 st,
    ref_v2_build m ts id h (ref_response_frame ft (status_body s)) = Some p
    /\ ref_v3_build_response key counter p rnd = Some p3
    /\ (forall segs, concat segs = p3 -> fold_left data_received segs ([], []) = ([], [p3]))
    /\ v3_process_packet (Some key) p3 = Ok p
    /\ v2_decode p = Ok (ref_response_frame ft (status_body s))
    /\ construct (ref_response_frame ft (status_body s)) = Ok (RState 192 st)
    /\ view_of_dev (update_state d (RState 192 st)) = expected_view (d_sup_custom_fan d) (report_of s).
Proof. exact e2e_report_v3. Qed.
Print Assumptions C01_refresh_v3.

(* unsolicited / duplicated reports on a V3 connection: ANY list of encrypted packets, however the concatenated stream is
   segmented, is queued exactly, in order, and each is processed back to its payload *)
Theorem C01_stream_v3 : forall key (items : list (N * bytes * bytes)) (ps : list bytes),
  key32 key ->
  Forall (fun it => let '(c, data, rnd) := it in c < 65536 /\ wfb data /\ wfb rnd /\ N.of_nat (length data) <= 65000
                    /\ (v3_pad (length data) <= length rnd)%nat) items ->
  Forall2 (fun it p => let '(c, data, rnd) := it in ref_v3_build_response key c data rnd = Some p) items ps ->
  ps <> [] ->
  forall segs, concat segs = concat ps ->
    fold_left data_received segs ([], []) = ([], ps)
    /\ Forall2 (fun it p => let '(c, data, rnd) := it in v3_process_packet (Some key) p = Ok data) items ps.
Proof. exact e2e_stream_v3. Qed.
Print Assumptions C01_stream_v3.

(* K2 (known finding), as a theorem about the model of the V2 transport, which decodes every TCP segment as a packet: any
   proper prefix of a V2 packet is rejected - a V2 reply split across segments is lost.  The property's claim for V2 under
   arbitrary segmentation therefore does not hold; the check reports it as KNOWN-FINDING with the concrete input. *)
Theorem C01_v2_split_refuted : forall p n, v2_len p = length p -> (n < length p)%nat -> v2_decode (firstn n p) = Err EProtocol.
Proof. exact v2_segment_rejected. Qed.
Print Assumptions C01_v2_split_refuted.

(* K3 (known finding), as a kernel-checked witness in the session model (which agrees with the real LAN.send on whole histories,
   C07/C08): the appliance answers every request with an unsolicited report (frames 10, 20, 30) and, 3 ms later, the reply
   proper (11, 21, 31) on one serialised stream.  The second request is answered by the FIRST exchange's late reply and the
   third by the report belonging to the second: every exchange is one packet behind, which is how refresh() comes to show
   an earlier state.  Responses are not correlated with requests. *)
Theorem C01_replies_not_correlated :
  fst (run_ops [OSend 1 3; OSend 2 3; OSend 3 3]
         (world_init [ConnOk] [] [[(0, RFrame 10); (3, RFrame 11)]; [(6, RFrame 20); (9, RFrame 21)]; [(6, RFrame 30); (9, RFrame 31)]]))
  = [OutFrames [10]; OutFrames [11]; OutFrames [20]].
Proof. vm_compute. reflexivity. Qed.
Print Assumptions C01_replies_not_correlated.

Example C01_nonvacuous :
  (* astate0 with 30.5 C heat: its status frame through Response.construct and the attribute update reads 61 half degrees *)
  let s := mkAstate true 61 4 60 3 true false false false false false true false 55 true false 100 120 in
  match construct (ref_response_frame 3 (status_body s)) with
  | Ok r => let d := update_state dev_init r in (d_target d =? 61) && d_power d && (d_mode d =? 4) && negb (d_display d)
  | Err _ => false end = true.
Proof. vm_compute. reflexivity. Qed.
