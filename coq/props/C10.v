(* C10 - the control command encodes exactly the requested state (vendor bit layout). Statements only. *)
From MS Require Import lib.Base gen.GenConst gen.GenCmd gen.GenDev model.Frame model.Command model.Response model.Device
  spec.RefAC proofs.ControlProofs.

(* For every settable state (13.0..43.5 C in half degrees, every mode 0..7, every fan byte 0..127, swing nibble,
   humidity 0..127, all flags) the body decodes under the reference layout to exactly that state. *)
Theorem C10_roundtrip : forall c, valid_ctrl c ->
  exists b, set_state_body c = Ok b /\ ref_decode_control b = Some (req_of c).
Proof. exact control_roundtrip. Qed.
Print Assumptions C10_roundtrip.

(* Distinct requested states never produce the same body. *)
Theorem C10_injective : forall c1 c2 b, valid_ctrl c1 -> valid_ctrl c2 ->
  set_state_body c1 = Ok b -> set_state_body c2 = Ok b -> req_of c1 = req_of c2.
Proof. exact control_injective. Qed.
Print Assumptions C10_injective.

(* Through apply(): the command built from the device attributes (or_default, aux-mode split, beep) decodes to
   those attributes. *)
Theorem C10_apply : forall d, valid_dev d ->
  exists b, set_state_body (apply_ctrl d) = Ok b /\ ref_decode_control b = Some (requested d).
Proof. exact control_apply. Qed.
Print Assumptions C10_apply.

Example C10_nonvacuous :
  match set_state_body (apply_ctrl (Device.dev_init)) with
  | Ok b => match ref_decode_control b with Some q => (q_target q =? 34) && (q_fan q =? 102) | None => false end
  | Err _ => false end = true.
Proof. vm_compute. reflexivity. Qed.
