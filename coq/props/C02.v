(* C02 - the V2 packet codec interoperates with an independent implementation of the format. Statements only. *)
From MS Require Import lib.Base gen.GenLan crypto.MD5 crypto.Modes model.Lan spec.RefLan proofs.LanV2Proofs.
Local Open Scope N_scope.

(* every frame (any length up to 65000, hence every PKCS7 padding length and block count), every device id below 2^64
   and every 8-byte timestamp: the reference parser recovers exactly the id and the frame; packet length = 8 mod 16 *)
Theorem C02_encode_interop : forall ts id f,
  wfb f -> N.of_nat (length f) <= 65000 -> id < 2 ^ 64 -> length ts = 8%nat ->
  exists p, v2_encode ts id f = Ok p /\ ref_v2_parse p = Some (id, f) /\ (length p mod 16 = 8)%nat.
Proof. exact v2_encode_interop. Qed.
Print Assumptions C02_encode_interop.

(* conversely every packet the reference builds (any message id, timestamp, device id, header bytes) decodes to
   exactly the frame *)
Theorem C02_decode_interop : forall m ts id h f,
  wfb f -> N.of_nat (length f) <= 65000 -> length m = 4%nat -> length ts = 8%nat -> length h = 12%nat ->
  exists p, ref_v2_build m ts id h f = Some p /\ v2_decode p = Ok f.
Proof. exact v2_decode_interop. Qed.
Print Assumptions C02_decode_interop.

Example C02_nonvacuous :
  match v2_encode [67; 5; 4; 3; 2; 1; 24; 20] 123456 [170; 1; 2; 3] with
  | Ok p => match ref_v2_parse p with Some (id, f) => (id =? 123456) && beqb f [170; 1; 2; 3] | None => false end
  | Err _ => false end = true.
Proof. vm_compute. reflexivity. Qed.
