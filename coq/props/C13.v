(* C13 - corrupted responses are rejected and never change state. Statements only. *)
From MS Require Import lib.Base gen.GenConst gen.GenCmd model.Frame model.Command model.Response model.Device
  proofs.FrameProofs proofs.CommandProofs proofs.ResponseProofs proofs.DeviceProofs.
From RecordUpdate Require Import RecordSet.
Import RecordSetNotations.

(* Sentence 1: a frame that is used has a matching outer checksum and - unless it is a property response -
   a body check byte equal to the CRC-8 or to the additive checksum of the body. *)
Theorem C13_accept_implies_checks : forall f r,
  construct f = Ok r ->
  frame_validate f = Ok tt /\ (is_props f = true \/ response_validate (slice_neg f 10 1) = Ok tt).
Proof. exact construct_accepts. Qed.
Print Assumptions C13_accept_implies_checks.

Theorem C13_body_check_iff : forall b c,
  response_validate (b ++ [c]) = Ok tt <-> (crc8 b = c \/ checksum b = c).
Proof. exact response_validate_iff. Qed.
Print Assumptions C13_body_check_iff.

(* Every single-byte change after the start byte of a frame with a valid checksum is rejected by the outer
   checksum (no fix-up): any length, any position, all 255 substitutes. *)
Theorem C13_outer_detects : forall f i v,
  wfb f -> frame_validate f = Ok tt -> (1 <= i < length f)%nat -> v < 256 -> v <> nth i f 0 ->
  construct (upd i v f) = Err EInvalidFrame.
Proof. intros. apply construct_rejects_bad_outer. apply outer_detects; assumption. Qed.
Print Assumptions C13_outer_detects.

(* Each body check by itself detects every single-byte change of the body. *)
Theorem C13_crc_single_byte : forall b i v,
  wfb b -> (i < length b)%nat -> v < 256 -> v <> nth i b 0 -> crc8 (upd i v b) <> crc8 b.
Proof. exact crc_single_byte. Qed.
Theorem C13_sum_single_byte : forall b i v,
  wfb b -> (i < length b)%nat -> v < 256 -> v <> nth i b 0 -> checksum (upd i v b) <> checksum b.
Proof. exact sum_single_byte. Qed.
Print Assumptions C13_crc_single_byte.
Print Assumptions C13_sum_single_byte.

(* Exact characterisation of what survives the body check after a single-byte body corruption (outer checksum
   recomputed): only a coincidence with the check style the authentic frame did not use; and per position at
   most one substitute per style (so at most two of the 255). *)
Theorem C13_body_escape : forall b c i v,
  wfb b -> (i < length b)%nat -> v < 256 -> v <> nth i b 0 ->
  (crc8 b = c \/ checksum b = c) ->
  response_validate (upd i v b ++ [c]) = Ok tt ->
  (crc8 (upd i v b) = c /\ crc8 b <> c /\ checksum b = c)
  \/ (checksum (upd i v b) = c /\ checksum b <> c /\ crc8 b = c).
Proof. exact body_escape. Qed.
Print Assumptions C13_body_escape.

Theorem C13_body_escape_unique : forall b c i v1 v2,
  wfb b -> (i < length b)%nat -> v1 < 256 -> v2 < 256 ->
  (crc8 (upd i v1 b) = c /\ crc8 (upd i v2 b) = c) \/ (checksum (upd i v1 b) = c /\ checksum (upd i v2 b) = c) ->
  v1 = v2.
Proof. exact body_escape_unique. Qed.
Print Assumptions C13_body_escape_unique.

(* A refresh that receives only rejected frames leaves every attribute as it was and reports the device offline
   and unsupported - for every device state, every peer and every number of frames. *)
Theorem C13_rejected_leave_state : forall (P : Type) (peer : P -> bytes -> P * list bytes),
  (forall p f, Forall rejected (snd (peer p f))) ->
  forall w, (length (d_sup_props (w_dev w)) <= 120)%nat ->
  exists w', refresh peer w = (w', None)
    /\ w_dev w' = w_dev w <| d_supported := false |> <| d_online := false |>.
Proof. exact refresh_all_rejected. Qed.
Print Assumptions C13_rejected_leave_state.

(* Sentence 2 read literally ("every such corruption is dropped") is FALSE of the faithful model - and of any
   implementation of sentence 1: witness = a CRC-style state response whose id byte is replaced by 0x06 with the
   outer checksum recomputed; the unchanged check byte equals the additive checksum of the new body. This is the
   known finding K1 (DESIGN.md section 8). *)
Definition k1_frame : bytes :=
  [170;35;172;0;0;0;0;0;0;3;192;197;215;20;132;248;207;155;244;183;111;71;144;71;48;128;75;158;50;37;169;241;51;181;186;116].
Definition refix (f : bytes) : bytes := removelast f ++ [checksum (slice_neg f 1 1)].
Theorem C13_sentence2_refuted :
  exists f i v, is_ok (construct f) = true /\ (10 <= i < length f - 2)%nat /\ v < 256 /\ v <> nth i f 0
                /\ is_ok (construct (refix (upd i v f))) = true.
Proof.
  exists k1_frame, 10%nat, 6. vm_compute. repeat split; try reflexivity; try discriminate; try lia.
Qed.
Print Assumptions C13_sentence2_refuted.

(* non-vacuity of the detection theorems on the same frame *)
Example C13_nonvacuous :
  wfbb k1_frame && is_ok (frame_validate k1_frame) && negb (is_ok (construct (upd 12 0 k1_frame))) = true.
Proof. vm_compute. reflexivity. Qed.
