(* C03 - V2 packet integrity. Statements only. The signing key is a public constant of the source, so "integrity" is
   against corruption, not against an adversary; no hardness assumption about MD5 is made: an accepted forgery is shown
   to require an explicit MD5 coincidence. *)
From MS Require Import lib.Base gen.GenLan crypto.MD5 crypto.Modes model.Lan spec.RefLan proofs.LanV2Proofs.

(* accepted only when the signature matches the content *)
Theorem C03_accept_implies_signed : forall p f, v2_decode p = Ok f ->
  (v2_len p <= length p)%nat
  /\ security_sign (signed_part p) = tag_part p
  /\ decrypt_aes (skipn 40 (signed_part p)) = Ok f.
Proof. exact v2_accept_signed. Qed.
Print Assumptions C03_accept_implies_signed.

(* never a different frame - unless the transmitted tag is the keyed MD5 of a signed part different from the authentic one *)
Theorem C03_never_other_frame : forall p f p' f',
  v2_decode p = Ok f -> v2_decode p' = Ok f' -> f' <> f ->
  signed_part p' <> signed_part p /\ security_sign (signed_part p') = tag_part p'.
Proof. exact v2_never_other_frame. Qed.
Print Assumptions C03_never_other_frame.

(* unconditional rejections: any alteration of the start marker, every truncation, a length field beyond the data,
   and any change confined to the signature *)
Theorem C03_marker : forall p, beqb (slice p 0 2) [90; 90] = false -> v2_decode p = Err EProtocol.
Proof. exact v2_reject_marker. Qed.
Theorem C03_truncation : forall p n, v2_len p = length p -> (n < length p)%nat -> v2_decode (firstn n p) = Err EProtocol.
Proof. exact v2_reject_truncation. Qed.
Theorem C03_length_beyond : forall p, (length p < v2_len p)%nat -> v2_decode p = Err EProtocol.
Proof. exact v2_reject_length_beyond. Qed.
Theorem C03_tag_change : forall body tag tag' f,
  length tag = 16%nat -> length tag' = 16%nat -> (6 <= length body)%nat -> v2_len (body ++ tag) = length (body ++ tag) ->
  v2_decode (body ++ tag) = Ok f -> tag' <> tag -> v2_decode (body ++ tag') = Err EProtocol.
Proof. exact v2_reject_tag_change. Qed.
Print Assumptions C03_marker.
Print Assumptions C03_truncation.
Print Assumptions C03_length_beyond.
Print Assumptions C03_tag_change.

Example C03_nonvacuous :
  match v2_encode [67; 5; 4; 3; 2; 1; 24; 20] 1 [170; 1] with
  | Ok p => (Nat.eqb (v2_len p) (length p)) && is_ok (v2_decode p) && negb (is_ok (v2_decode (firstn 60 p)))
  | Err _ => false end = true.
Proof. vm_compute. reflexivity. Qed.
