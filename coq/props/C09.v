(* C09 - transport containment: peer bytes cause only protocol errors or timeouts. Statements only. *)
From MS Require Import lib.Base gen.GenLan crypto.Modes model.Lan model.Session proofs.ContainProofs proofs.SessionProofs proofs.SessionHoare proofs.SessionHistory.
Local Open Scope N_scope.

(* byte level, EVERY byte string: the V2 packet decoder, the V3 packet processor (with or without a session key) and
   their composition in LAN._read yield a result or a protocol error *)
Theorem C09_v2_decode : forall p e, v2_decode p = Err e -> e = EProtocol.
Proof. exact v2_decode_contained. Qed.
Theorem C09_v3_process : forall key p e, (6 <= length p)%nat -> v3_process_packet key p = Err e -> e = EProtocol.
Proof. exact v3_process_contained. Qed.
Theorem C09_lan_read : forall key p e, (6 <= length p)%nat -> lan_read_v3 key p = Err e -> e = EProtocol.
Proof. exact lan_read_v3_contained. Qed.
(* the length premise always holds for what the reassembler hands over *)
Theorem C09_queued_have_header : forall segs,
  Forall (fun p => (8 <= length p)%nat) (snd (fold_left data_received segs ([], []))).
Proof. exact queued_packets_have_header. Qed.
Theorem C09_handshake : forall key r e, get_local_key key r = Err e -> e = EAuth \/ e = EValue.
Proof. exact get_local_key_contained. Qed.
Print Assumptions C09_v2_decode.
Print Assumptions C09_v3_process.
Print Assumptions C09_lan_read.
Print Assumptions C09_queued_have_header.
Print Assumptions C09_handshake.

(* session level, EVERY state and EVERY environment: an exchange or an authentication ends in frames, a protocol /
   authentication error or a timeout; the device-level wrappers report 'no response' / AuthenticationError *)
Theorem C09_send : forall f r, hoare (fun _ => True) (lan_send f r) (fun _ _ => True) (fun e _ => allowed e).
Proof. exact lan_send_contained. Qed.
Theorem C09_authenticate : forall g r, hoare (fun _ => True) (lan_authenticate g (S r)) (fun _ _ => True) (fun e _ => allowed e).
Proof. exact lan_authenticate_contained. Qed.
Theorem C09_device_send : forall f w, exists l, fst (dev_send_command f w) = Ok l.
Proof. exact dev_send_command_total. Qed.
Theorem C09_device_authenticate : forall g w e, fst (dev_authenticate g w) = Err e -> e = EAuth.
Proof. exact dev_authenticate_contained. Qed.
Print Assumptions C09_send.
Print Assumptions C09_authenticate.
Print Assumptions C09_device_send.
Print Assumptions C09_device_authenticate.

(* whole histories: whatever sequence of exchanges, authentications (retry budget >= 1), device-level calls, waits and lifetime
   changes is run against whatever environment, EVERY operation of it ends in its result, a ProtocolError, an AuthenticationError or
   a TimeoutError (no state a failure leaves behind - half-open connections, stale expiry times, missing protocol objects - makes a
   later operation end in anything else) *)
Theorem C09_history : forall os w, Forall op_ok os -> Forall out_ok (fst (run_ops os w)).
Proof. exact history_contained. Qed.
Print Assumptions C09_history.

Example C09_nonvacuous :
  v2_decode [90; 90; 1; 17; 56; 0; 32; 0] = Err EProtocol
  /\ v3_process_packet None [131; 112; 0; 0; 32; 3; 0; 0] = Err EProtocol.
Proof. split; vm_compute; reflexivity. Qed.
