From MS Require Import lib.Base.
