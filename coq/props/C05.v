(* C05 - the V3 encrypted packet codec: interoperable for every length, tamper-evident. Statements only. *)
From MS Require Import lib.Base gen.GenLan crypto.SHA256 crypto.Modes model.Lan spec.RefLan proofs.LanV3Proofs.
Local Open Scope N_scope.

(* every payload length (hence every padding amount 0..15), every 32-byte key, every counter below 65536, any pad
   bytes: the reference device parses the request to the same counter and payload, with consistent size / padding /
   type fields and a valid SHA-256 tag *)
Theorem C05_request_interop : forall key pid data rnd,
  key32 key -> pid < 65536 -> wfb data -> wfb rnd -> N.of_nat (length data) <= 65000 ->
  (v3_pad (length data) <= length rnd)%nat ->
  exists p, v3_encode_request (Some key) pid data rnd = Ok p /\ ref_v3_parse_request key p = Some (pid, data).
Proof. exact v3_request_interop. Qed.
Print Assumptions C05_request_interop.

(* every encrypted response the reference device produces is decoded to exactly the payload sent *)
Theorem C05_response_interop : forall key counter data rnd,
  key32 key -> counter < 65536 -> wfb data -> wfb rnd -> N.of_nat (length data) <= 65000 ->
  (v3_pad (length data) <= length rnd)%nat ->
  exists p, ref_v3_build_response key counter data rnd = Some p /\ v3_process_packet (Some key) p = Ok data.
Proof. exact v3_response_interop. Qed.
Print Assumptions C05_response_interop.

(* tamper evidence without any hardness assumption: accepted => tag = SHA-256(header || plaintext); a different payload
   is accepted only with an explicit SHA-256 coincidence; any change confined to the tag is rejected *)
Theorem C05_accept_implies_tag : forall k p d, v3_decode_encrypted_response (Some k) p = Ok d ->
  exists dec, decrypt_aes_cbc k (slice_neg p 6 32) = Ok dec
    /\ sha256 (firstn 6 p ++ dec) = last_n p 32
    /\ exists pad, idx (firstn 6 p) 5 = Ok pad /\ d = slice dec 2 (length dec - N.to_nat (N.shiftr pad 4)).
Proof. exact v3_accept_tag. Qed.
Theorem C05_never_other_payload : forall k p d p' d',
  v3_decode_encrypted_response (Some k) p = Ok d -> v3_decode_encrypted_response (Some k) p' = Ok d' -> d' <> d ->
  exists m m', v3_signed k p = Some m /\ v3_signed k p' = Some m' /\ m' <> m /\ sha256 m' = last_n p' 32.
Proof. exact v3_never_other_payload. Qed.
Theorem C05_tag_change : forall k body tag tag' d,
  length tag = 32%nat -> length tag' = 32%nat -> (6 <= length body)%nat ->
  v3_decode_encrypted_response (Some k) (body ++ tag) = Ok d -> tag' <> tag ->
  v3_decode_encrypted_response (Some k) (body ++ tag') = Err EProtocol.
Proof. exact v3_reject_tag_change. Qed.
Print Assumptions C05_accept_implies_tag.
Print Assumptions C05_never_other_payload.
Print Assumptions C05_tag_change.

Example C05_nonvacuous :
  let key := map N.of_nat (seq 1 32) in
  match ref_v3_build_response key 7 (map N.of_nat (seq 100 14)) (zeros 16) with
  | Some p => match v3_process_packet (Some key) p with Ok d => beqb d (map N.of_nat (seq 100 14)) | Err _ => false end
  | None => false end = true.
Proof. vm_compute. reflexivity. Qed.
