(* C11 - state responses decode to exactly the reported state. Statements only. *)
From MS Require Import lib.Base gen.GenConst gen.GenCmd gen.GenDev model.Frame model.Command model.Response model.Device
  spec.RefAC proofs.ResponseProofs proofs.StateProofs proofs.TempProofs.

(* For EVERY body of at least 16 bytes (all values of every byte; fan byte within the 7-bit vendor field) the decoder
   succeeds and the attributes a refresh exposes equal the reference report: flags, setpoint (all 32 x 32 primary /
   alternate codes), mode / swing with the documented enum defaulting, custom fan speeds, display, filter; humidity
   is unknown below 20 bytes and freeze protection unknown below 22 bytes. Sensor temperatures are the code's
   temperature function of the reported raw byte, tenths digit and unit (characterised below). *)
Theorem C11_decode : forall b custom,
  wfb b -> (16 <= length b)%nat -> nthb b 3 < 128 ->
  exists s r, parse_state b = Ok s /\ ref_report b = Some r
              /\ state_view custom s = expected_view custom r
              /\ s_indoor s = parse_temperature (p_indoor_raw r) (p_indoor_digit r) (p_fahrenheit r)
              /\ s_outdoor s = parse_temperature (p_outdoor_raw r) (p_outdoor_digit r) (p_fahrenheit r).
Proof. exact state_decode_matches. Qed.
Print Assumptions C11_decode.

(* ... and that is what the device object exposes after the update, whatever its previous state *)
Theorem C11_exposed : forall d s,
  view_of_dev (update_from_state d s) = state_view (d_sup_custom_fan d) s
  /\ d_indoor (update_from_state d s) = s_indoor s /\ d_outdoor (update_from_state d s) = s_outdoor s.
Proof. intros d s. split; [apply view_update|apply temps_update]. Qed.
Print Assumptions C11_exposed.

(* Temperature laws (tenths of a degree): unknown exactly for the 0xFF sentinel *)
Theorem C11_temp_none_iff : forall d k f, parse_temperature d k f = None <-> d = 255.
Proof. exact temp_none_iff. Qed.
Print Assumptions C11_temp_none_iff.

(* within one degree of the coarse half-degree reading 5*(d-50) tenths, for every raw byte, digit 0..9, both units *)
Theorem C11_temp_within_one : forall d k f t, d < 256 -> k <= 9 ->
  parse_temperature d k f = Some t -> (Z.abs (t - 5 * (Z.of_N d - 50)) <= 10)%Z.
Proof. exact temp_within_one. Qed.
Print Assumptions C11_temp_within_one.

(* in Celsius a non-zero reported tenths digit is reflected exactly *)
Theorem C11_temp_digit : forall d k t, d < 256 -> 1 <= k <= 9 ->
  parse_temperature d k false = Some t -> (Z.abs t mod 10 = Z.of_N k)%Z.
Proof. exact temp_digit. Qed.
Print Assumptions C11_temp_digit.

(* the trailing check style does not matter: a body is accepted with a CRC-8 or an additive check byte *)
Theorem C11_check_styles : forall b c, response_validate (b ++ [c]) = Ok tt <-> (crc8 b = c \/ checksum b = c).
Proof. exact response_validate_iff. Qed.
Print Assumptions C11_check_styles.

Example C11_nonvacuous :
  match parse_state [192;1;0x52;60;0;0;0;12;0;0x10;4;70;255;0;0;0x53] with
  | Ok s => (s_target s =? 37) && (s_fan s =? 60) && s_eco s
            && match s_indoor s, s_outdoor s with Some t, None => (t =? 100)%Z | _, _ => false end
  | Err _ => false end = true.
Proof. vm_compute. reflexivity. Qed.
