(* C04 - V3 stream reassembly is segmentation-independent. Statements only. *)
From MS Require Import lib.Base model.Lan proofs.DrainProofs proofs.StreamProofs.
Local Open Scope nat_scope.

(* For ARBITRARY byte strings (no well-formedness assumed): feeding any segmentation of a stream to data_received
   gives the same buffer and queue as feeding the whole stream at once. *)
Theorem C04_seg_indep : forall segs, fold_left data_received segs ([], []) = drain_all (concat segs) [].
Proof. exact seg_indep. Qed.
Print Assumptions C04_seg_indep.

Theorem C04_same_stream_same_result : forall s1 s2, concat s1 = concat s2 ->
  fold_left data_received s1 ([], []) = fold_left data_received s2 ([], []).
Proof. exact seg_indep2. Qed.
Print Assumptions C04_same_stream_same_result.

(* For well-formed streams: marker-free garbage, then any number of well-formed packets (arbitrary payload bytes,
   including the marker bytes), then possibly a strict prefix of a further packet - however it is segmented - the queue
   holds exactly the complete packets, each once, in order, and the partial tail stays buffered. Applied to every
   prefix of a device's byte stream this is also "as soon as the last byte has arrived". *)
Theorem C04_stream : forall segs g ps t, marker_free g -> Forall wf_pkt ps -> partial t ->
  concat segs = g ++ concat ps ++ t ->
  fold_left data_received segs ([], []) = ((match ps with [] => g | _ => [] end) ++ t, ps).
Proof. exact reassembly. Qed.
Print Assumptions C04_stream.

Theorem C04_stream_complete : forall segs g ps, marker_free g -> Forall wf_pkt ps -> ps <> [] ->
  concat segs = g ++ concat ps -> fold_left data_received segs ([], []) = ([], ps).
Proof. exact reassembly_complete. Qed.
Print Assumptions C04_stream_complete.

(* the termination argument of the while loop: the fuel never runs out *)
Theorem C04_fuel : forall f1 f2 buf q, length buf < f1 -> length buf < f2 -> drain f1 buf q = drain f2 buf q.
Proof. exact drain_fuel. Qed.
Print Assumptions C04_fuel.

Example C04_nonvacuous :
  let p1 := [131; 112; 0; 2; 32; 3; 131; 112; 9; 9]%N in
  let p2 := [131; 112; 0; 0; 32; 1; 0; 0]%N in
  fold_left data_received [[7; 131]%N; [5; 131; 112; 0]%N; [2; 32; 3; 131]%N; [112; 9; 9; 131; 112]%N; [0; 0; 32; 1; 0; 0; 131]%N] ([], [])
  = ([131%N], [p1; p2]).
Proof. vm_compute. reflexivity. Qed.
