(* C15 - capability records are interpreted independently and survive paging. Statements only. *)
From MS Require Import lib.Base gen.GenCmd model.Frame model.Response model.Device spec.RefCaps proofs.CapsProofs.

(* For every well-formed record list (known / unknown ids, zero-size, odd-sized, undersized temperature records, any
   order, any trailer) the parser's dictionary is exactly the records applied one after the other, each read from
   its own bytes only. *)
Theorem C15_sequential : forall rs trailer, Forall wf_rec rs -> (length rs <= 255)%nat ->
  parse_caps (page rs trailer) = Ok (fold_left apply_rec rs [], flag_of trailer).
Proof. exact parse_caps_page. Qed.
Print Assumptions C15_sequential.

(* ... which has the same entries as interpreting each record ALONE and merging the dictionaries in order. *)
Theorem C15_independent : forall rs trailer, Forall wf_rec rs -> (length rs <= 255)%nat ->
  exists d more, parse_caps (page rs trailer) = Ok (d, more) /\ cequiv d (merge_all (map interp1 rs)).
Proof. exact parse_is_merge_of_singles. Qed.
Print Assumptions C15_independent.

(* Paging: split at ANY point across a first response (flag set) and an additional response; the merged dictionary
   has the same entries as the single response. *)
Theorem C15_paging : forall rs n m1 m2 flag1, Forall wf_rec rs -> (length rs <= 255)%nat -> flag1 <> 0 ->
  exists d1 d2 d,
    parse_caps (page (firstn n rs) [flag1; m1]) = Ok (d1, true)
    /\ parse_caps (page (skipn n rs) [0; m2]) = Ok (d2, false)
    /\ parse_caps (page rs [0; m2]) = Ok (d, false)
    /\ cequiv (cdict_merge d1 d2) d.
Proof. exact paging. Qed.
Print Assumptions C15_paging.

(* Dictionaries with the same entries give the same supported_* / supports_* / min / max attributes. *)
Theorem C15_attributes : forall d a b, cequiv a b -> update_capabilities d a = update_capabilities d b.
Proof. exact update_capabilities_equiv. Qed.
Print Assumptions C15_attributes.

Example C15_nonvacuous :
  let rs := [ {| r_id := 549; r_vals := [1; 2; 3] |}; {| r_id := 532; r_vals := [1] |};
              {| r_id := 549; r_vals := [30; 60; 34; 60; 34; 60] |}; {| r_id := 30583; r_vals := [9; 9] |};
              {| r_id := 530; r_vals := [] |} ] in
  match parse_caps (page rs [0; 7]) with
  | Ok (d, more) => (length d =? 13)%nat && negb more
  | Err _ => false end = true.
Proof. vm_compute. reflexivity. Qed.
