(* C06 - the V3 handshake: key agreement when genuine, sound rejection otherwise. Statements only (packet level;
   the session-level clauses are in the Session theorems below once built). *)
From MS Require Import lib.Base gen.GenLan crypto.SHA256 crypto.Modes model.Lan model.Session spec.RefLan proofs.LanV3Proofs
  proofs.SessionProofs proofs.SessionHoare proofs.SessionCreds.
Local Open Scope N_scope.

(* authentication succeeds EXACTLY when the 64-byte reply proves knowledge of the key: it is CBC(key, nonce) ||
   SHA-256(nonce) for some 32-byte nonce, and then the session key is nonce xor key. Every bit flip, length change and
   reply made under another key is an instance of the right-to-left direction failing. *)
Theorem C06_exact : forall key r k, key32 key -> wfb r ->
  (get_local_key key r = Ok k <->
   exists nonce, length nonce = 32%nat /\ wfb nonce /\ ref_handshake_reply key nonce = Some r /\ k = ref_session_key key nonce).
Proof. exact get_local_key_exact. Qed.
Print Assumptions C06_exact.

(* every rejection is an authentication error *)
Theorem C06_errors : forall key r e, key32 key -> wfb r -> get_local_key key r = Err e -> e = EAuth.
Proof. exact get_local_key_errors. Qed.
Print Assumptions C06_errors.

(* key agreement: client and device hold the same session key and the client's next encrypted request is accepted
   by the reference device under it *)
Theorem C06_agreement : forall key nonce r pid data rnd,
  key32 key -> wfb key -> length nonce = 32%nat -> wfb nonce -> ref_handshake_reply key nonce = Some r ->
  pid < 65536 -> wfb data -> wfb rnd -> N.of_nat (length data) <= 65000 -> (v3_pad (length data) <= length rnd)%nat ->
  exists k p, get_local_key key r = Ok k /\ k = ref_session_key key nonce
              /\ v3_encode_request (Some k) pid data rnd = Ok p
              /\ ref_v3_parse_request (ref_session_key key nonce) p = Some (pid, data).
Proof. exact handshake_agreement. Qed.
Print Assumptions C06_agreement.

(* session level: an authentication that fails - for whatever reply, in whatever state - is an authentication / protocol /
   timeout error, replaces neither the stored token nor the stored key, and has written nothing but handshake requests *)
Theorem C06_failure_is_contained : forall g r, hoare (fun _ => True) (lan_authenticate g (S r)) (fun _ _ => True) (fun e _ => allowed e).
Proof. exact lan_authenticate_contained. Qed.
Theorem C06_failure_keeps_credentials : forall g r w e,
  fst (lan_authenticate g r w) = Err e -> l_creds (w_lan (snd (lan_authenticate g r w))) = l_creds (w_lan w).
Proof. exact authenticate_failure_keeps_credentials. Qed.
Theorem C06_only_handshakes_written : forall g r w, exists evs,
  w_log (snd (lan_authenticate g r w)) = w_log w ++ evs /\ (ndata evs <= 0)%nat.
Proof. exact bounded_lan_auth. Qed.
(* the session key changes only by accepting a genuine reply: see C07_trace_discipline (EvAuthOk) *)
Print Assumptions C06_failure_is_contained.
Print Assumptions C06_failure_keeps_credentials.
Print Assumptions C06_only_handshakes_written.

(* rejection does not depend on the state of the session: with a token/key pair the appliance does not accept, LAN.authenticate
   NEVER returns normally - not connected, connected, already authenticated with other credentials, expired, mid-failure, for every
   environment script and every retry budget >= 1; Device.authenticate then raises exactly AuthenticationError; and with no
   credentials at all (none given, none stored) it never returns normally either *)
Theorem C06_wrong_credentials_never_authenticate : forall r w a w', lan_authenticate (Some false) (S r) w <> (Ok a, w').
Proof. exact wrong_credentials_never_authenticate. Qed.
Theorem C06_no_credentials_never_authenticate : forall r w, l_creds (w_lan w) = None ->
  forall a w', lan_authenticate None (S r) w <> (Ok a, w').
Proof. exact no_credentials_never_authenticate. Qed.
Theorem C06_device_wrong_credentials : forall w, fst (dev_authenticate false w) = Err EAuth.
Proof. exact dev_wrong_credentials_raise_auth. Qed.
Print Assumptions C06_wrong_credentials_never_authenticate.
Print Assumptions C06_no_credentials_never_authenticate.
Print Assumptions C06_device_wrong_credentials.

Example C06_nonvacuous :
  let key := map N.of_nat (seq 1 32) in let nonce := map N.of_nat (seq 50 32) in
  match ref_handshake_reply key nonce with
  | Some r => match get_local_key key r with Ok k => beqb k (ref_session_key key nonce) | Err _ => false end
  | None => false end = true.
Proof. vm_compute. reflexivity. Qed.
