(* C18 - one device per host; bad responders cannot spoil the rest. Statements only.
   A run is the list of datagrams in arrival order (source address, source port, XML verdict, bytes). *)
From MS Require Import lib.Base gen.GenDisc model.Discover proofs.DiscoverProofs.
From Coq Require Import Permutation.
Local Open Scope N_scope.

(* For EVERY datagram list (any number of hosts, duplicates, ports, contents): discovery does not raise, and its result is
   exactly what the first datagram of each source address yields. *)
Theorem C18_never_raises : forall ds, discover ds = Ok (flat_map report (firsts [] ds)).
Proof. exact discover_char. Qed.
Print Assumptions C18_never_raises.

(* at most one device per source address *)
Theorem C18_one_per_host : forall ds l, discover ds = Ok l -> NoDup (map i_ip l).
Proof. exact one_device_per_host. Qed.
Print Assumptions C18_one_per_host.

(* a device is reported iff the first datagram from its address parses to it *)
Theorem C18_reported_iff_first : forall ds l i, discover ds = Ok l ->
  (In i l <-> exists g, first_from (i_ip i) ds = Some g /\ In i (report g)).
Proof. exact reported_iff_first. Qed.
Print Assumptions C18_reported_iff_first.

(* a duplicate from an address already heard from changes nothing, wherever it arrives and whatever it contains *)
Theorem C18_duplicates : forall ds1 d ds2, In (g_ip d) (map g_ip ds1) -> discover (ds1 ++ d :: ds2) = discover (ds1 ++ ds2).
Proof. exact duplicate_ignored. Qed.
Print Assumptions C18_duplicates.

(* the source port never matters *)
Theorem C18_ports : forall ds ds', Forall2 same_but_port ds ds' -> discover ds = discover ds'.
Proof. exact source_port_irrelevant. Qed.
Print Assumptions C18_ports.

(* arrival order matters only through which datagram of each host comes first *)
Theorem C18_interleaving : forall ds ds' l l',
  (forall h, first_from h ds = first_from h ds') -> discover ds = Ok l -> discover ds' = Ok l' -> Permutation l l'.
Proof. exact interleaving_irrelevant. Qed.
Print Assumptions C18_interleaving.

(* whatever one host sends (good, malformed, duplicated), the devices reported for the OTHER hosts are those of the run in
   which that host stays silent *)
Theorem C18_isolation : forall h ds l, discover ds = Ok l ->
  discover (filter (not_host h) ds) = Ok (filter (fun i => negb (i_ip i =? h)) l).
Proof. exact other_hosts_unaffected. Qed.
Print Assumptions C18_isolation.

(* a host whose (first) reply yields no device - malformed, undecryptable, truncated, not a Midea reply - is omitted and the
   result is exactly that of the run without it *)
Theorem C18_bad_host_omitted : forall h g ds l, discover ds = Ok l -> first_from h ds = Some g -> report g = [] ->
  discover (filter (not_host h) ds) = Ok l /\ ~ In h (map i_ip l).
Proof. exact bad_host_omitted. Qed.
Print Assumptions C18_bad_host_omitted.

(* every exception reply parsing can raise is one the task handler (regenerated from the source) turns into "no device" *)
Theorem C18_task_total : forall t, run_task t = Ok (task_out t).
Proof. exact run_task_total. Qed.
Print Assumptions C18_task_total.

Example C18_nonvacuous :
  (* a random-bytes host, a short-body host (XML verdict 2 = device element without port) and nothing else: no device, no exception *)
  discover [mkDgram 1 6445 0 [1; 2; 3]; mkDgram 2 20086 2 [60; 97; 47; 62]; mkDgram 1 6445 0 [90; 90]] = Ok [].
Proof. vm_compute. reflexivity. Qed.
