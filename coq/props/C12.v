(* C12 - every emitted command is a well-formed, device-acceptable frame; ids advance mod 256.
   Only statements here; proofs live in proofs/. *)
From MS Require Import lib.Base gen.GenCrc gen.GenConst gen.GenCmd model.Frame model.Command
  spec.RefFrame proofs.FrameProofs proofs.CommandProofs.

(* the regenerated CRC table is the CRC-8/MAXIM table of the reflected polynomial 0x8C *)
Theorem C12_crc_table : crc_table = map crc_byte all_bytes.
Proof. exact crc_table_is_maxim. Qed.
Print Assumptions C12_crc_table.

(* the table walk of crc8.calculate equals the bit-serial CRC on every byte string *)
Theorem C12_crc_bitwise : forall l, wfb l -> crc8 l = crc8_bitwise l.
Proof. exact crc8_eq_bitwise. Qed.
Print Assumptions C12_crc_bitwise.

(* every frame the model emits - any command, any parameters, any counter value - is accepted by
   the reference device parser with the documented frame type, carries id (counter+1) mod 256 and
   exactly the command body *)
Theorem C12_wellformed : forall n c f n',
  emit n c = Ok (f, n') ->
  n' = n + 1
  /\ dev_accepts (cmd_frame_type c) f = true
  /\ msg_id f = (n + 1) mod 256
  /\ cmd_body c = Ok (frame_body f).
Proof. exact emit_accepted. Qed.
Print Assumptions C12_wellformed.

(* ... and emission succeeds on the whole documented parameter domain *)
Theorem C12_total : forall n c, encodable c = true -> exists f, emit n c = Ok (f, n + 1).
Proof. exact emit_succeeds. Qed.
Print Assumptions C12_total.

Theorem C12_domain_set_state : forall c, c_fan c < 256 -> encodable (SetState c) = true.
Proof. exact encodable_set_state. Qed.
Theorem C12_domain_get_props : forall ids, (length ids <= 120)%nat -> encodable (GetProps ids) = true.
Proof. exact encodable_get_props. Qed.
Theorem C12_domain_set_props : forall kvs, (length kvs <= 15)%nat ->
  Forall (fun kv => pid_supported (fst kv) = true /\ snd kv < 256) kvs -> encodable (SetProps kvs) = true.
Proof. exact encodable_set_props. Qed.
Theorem C12_domain_fixed : forall c,
  In c [GetCaps false; GetCaps true; GetState; GetEnergy; GetHumidity; ToggleDisplay false; ToggleDisplay true] ->
  encodable c = true.
Proof. exact encodable_fixed. Qed.
Print Assumptions C12_domain_set_state.
Print Assumptions C12_domain_get_props.
Print Assumptions C12_domain_set_props.
Print Assumptions C12_domain_fixed.

(* ids over command sequences of ANY length and any starting counter: the k-th frame carries
   (n + 1 + k) mod 256, and every frame is accepted *)
Theorem C12_ids : forall cs n fs,
  emit_seq n cs = Ok fs ->
  map msg_id fs = ids_from n (length cs)
  /\ Forall2 (fun c f => dev_accepts (cmd_frame_type c) f = true) cs fs.
Proof. exact emit_seq_ids. Qed.
Print Assumptions C12_ids.

Theorem C12_ids_nth : forall n k j, (j < k)%nat -> nth j (ids_from n k) 0 = (n + 1 + N.of_nat j) mod 256.
Proof. exact ids_from_nth. Qed.
Print Assumptions C12_ids_nth.

Theorem C12_seq_total : forall cs, Forall (fun c => encodable c = true) cs ->
  forall n, exists fs, emit_seq n cs = Ok fs.
Proof. exact emit_seq_succeeds. Qed.
Print Assumptions C12_seq_total.

(* non-vacuity: a concrete non-trivial command satisfies the hypotheses *)
Example C12_nonvacuous :
  match emit 254 (SetProps [(PropertyId_IECO, 1); (PropertyId_BREEZE_AWAY, 1)]) with
  | Ok (f, n') => (n' =? 255) && (msg_id f =? 255) && dev_accepts 2 f
  | Err _ => false
  end = true.
Proof. vm_compute. reflexivity. Qed.
