(* C14 - no device response makes an operation raise. Statements only. *)
From MS Require Import lib.Base gen.GenConst gen.GenCmd model.Frame model.Command model.Response model.Device
  proofs.DeviceProofs proofs.TotalProofs proofs.HistoryProofs extract.Run.
Local Open Scope N_scope.

(* Response.construct on EVERY byte string (empty, truncated anywhere, oversized, any ids / counts / sizes) yields
   a response or one of the two exceptions the device layer catches. *)
Theorem C14_construct_total : forall f,
  (exists r, construct f = Ok r) \/ construct f = Err EInvalidFrame \/ construct f = Err EInvalidResponse.
Proof. exact construct_total. Qed.
Print Assumptions C14_construct_total.

(* An exchange never raises and delivers exactly the decodable frames, in order: undecodable ones are skipped, the
   decodable ones of the same exchange are still delivered. *)
Theorem C14_good_still_applied : forall frames, valid_responses frames = Ok (flat_map accepted_of frames).
Proof. exact valid_responses_total. Qed.
Print Assumptions C14_good_still_applied.

(* The five public operations never raise, for every peer (every reply to every request) and every device state;
   dev_wf only restricts values the CALLER set (one-byte fan speed / property values), not the device. *)
Theorem C14_refresh : forall (P : Type) (peer : P -> bytes -> P * list bytes) w,
  (length (d_sup_props (w_dev w)) <= 120)%nat -> snd (refresh peer w) = None.
Proof. exact refresh_never_raises. Qed.
Theorem C14_apply : forall (P : Type) (peer : P -> bytes -> P * list bytes) w,
  dev_wf (w_dev w) -> snd (apply_op peer w) = None.
Proof. exact apply_never_raises. Qed.
Theorem C14_get_capabilities : forall (P : Type) (peer : P -> bytes -> P * list bytes) w,
  snd (get_capabilities peer w) = None.
Proof. exact get_capabilities_never_raises. Qed.
Theorem C14_toggle_display : forall (P : Type) (peer : P -> bytes -> P * list bytes) w,
  (length (d_sup_props (w_dev w)) <= 120)%nat -> snd (toggle_display peer w) = None.
Proof. exact toggle_display_never_raises. Qed.
Theorem C14_start_self_clean : forall (P : Type) (peer : P -> bytes -> P * list bytes) w,
  snd (start_self_clean peer w) = None.
Proof. exact start_self_clean_never_raises. Qed.
Print Assumptions C14_refresh.
Print Assumptions C14_apply.
Print Assumptions C14_get_capabilities.
Print Assumptions C14_toggle_display.
Print Assumptions C14_start_self_clean.

(* the caller-side condition is preserved by whatever the device answers *)
Theorem C14_responses_keep_props_small : forall n rs d, inv n d -> inv n (fold_left update_state rs d).
Proof. exact (fold_update_inv unit (fun p _ => (p, []))). Qed.
Print Assumptions C14_responses_keep_props_small.

(* whole histories: ANY sequence of refresh / apply / get_capabilities / toggle_display / start_self_clean and setter calls (the
   op codes of the evaluator the correspondence check runs, one-byte values for the four byte-valued setters), starting in
   any state satisfying the invariant - in particular a fresh device - against ANY peer that answers with byte strings, never
   raises, and the invariant (hence the precondition of every single-operation theorem above) holds again at the end *)
Theorem C14_history : forall (P : Type) (peer : P -> bytes -> P * list bytes),
  (forall p f, Forall wfb (snd (peer p f))) ->
  forall ops w, hinv (w_dev w) -> args_ok ops ->
  snd (do_ops_gen peer w ops) = 0%Z /\ hinv (w_dev (fst (do_ops_gen peer w ops))).
Proof. exact history_never_raises. Qed.
Theorem C14_fresh_device : hinv dev_init /\ forall d, hinv d -> dev_wf d.
Proof. exact (conj hinv_init hinv_dev_wf). Qed.
Print Assumptions C14_history.
Print Assumptions C14_fresh_device.

Example C14_nonvacuous :
  dev_wf dev_init /\ construct [] = Err EInvalidResponse
  /\ construct [170; 11; 172; 0; 0; 0; 0; 0; 0; 6; 0; 67] = Err EInvalidResponse.
Proof.
  split; [|split; vm_compute; reflexivity].
  unfold dev_wf. repeat split; try (vm_compute; reflexivity); cbn; lia.
Qed.
