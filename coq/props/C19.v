(* C19 - cloud token retrieval follows the API contract and returns only matching credentials. Statements only.
   Model: model/Cloud.v (msmart/cloud.py NetHomePlusCloud, msmart/discover.py _get_cloud/_authenticate_device);
   reference: spec/RefCloud.v (a conforming cloud server), environments: spec/CloudSim.v. *)
From MS Require Import lib.Base gen.GenCloud crypto.SHA256 model.Lan model.Cloud spec.RefCloud spec.CloudSim proofs.CloudProofs.
From Coq Require Import Permutation.
Local Open Scope N_scope.

(* ---- the signature ---------------------------------------------------------------------------------------- *)
(* the signature does not depend on the order of the fields (the keys of a dict are distinct) *)
Theorem C19_sign_order_invariant : forall path d d',
  NoDup (map fst d) -> Permutation d d' -> sign path d = sign path d'.
Proof. exact sign_perm_invariant. Qed.
Print Assumptions C19_sign_order_invariant.

(* the reference server, recomputing the signature over all received fields but `sign` IN ANY ORDER of arrival, accepts
   the signature the client attached - for every path, every body with distinct keys and no `sign` key, all strings *)
Theorem C19_signature_verifies_in_any_order : forall path (body fs' : list field),
  NoDup (map fst body) -> ~ In K_sign (map fst body) ->
  Permutation (dict_set body K_sign (sign path body)) fs' -> ref_signature_ok path fs' = true.
Proof. exact sign_accepted. Qed.
Print Assumptions C19_signature_verifies_in_any_order.

(* ---- every request of the flow verifies --------------------------------------------------------------------
   A fresh Discover (no cloud yet) authenticating a device against the conforming cloud that knows the account: for
   EVERY account / password / region accepted by the constructor, login id and session id the cloud issues, registry and
   unknown-id policy, device id, process DEVICE_ID, clock, re-ordering of the fields in transit, fault script (timeouts,
   HTTP errors, API errors, in any positions) and device behaviour, the reference server rejects NONE of the requests it
   receives: signature, app id, account, password derivation for the issued login id, issued session id all verify. *)
Theorem C19_flow_requests_accepted :
  forall (shuffle : list field -> list field), (forall l, Permutation l (shuffle l)) ->
  forall (cfg : cloud_cfg) (dev : str) (stamp_of : nat -> str) (D : Type) (dev_auth : D -> str -> str -> D * res unit)
         region account password id d faults st log r dc' d' w' c0,
  cloud_new region account password = Ok c0 -> same_account cfg c0 ->
  authenticate_device _ (sim_srv shuffle cfg) dev stamp_of D dev_auth None region account password id d ((faults, st), log)
    = (r, dc', d', w') ->
  rs_rejected (w_ref w') = rs_rejected st.
Proof. intros sh Hsh cfg dev st D da. intros. eapply (flow_requests_accepted sh Hsh cfg dev st D da); eassumption. Qed.
Print Assumptions C19_flow_requests_accepted.

(* ---- only matching credentials ------------------------------------------------------------------------------ *)
(* what get_token returns is the token and key of the FIRST entry whose udpId equals the requested one ... *)
Theorem C19_token_is_first_match : forall u l t k, find_token u l = Some (t, k) ->
  exists l1 e l2, l = l1 ++ e :: l2 /\ e_udpid e = u /\ e_token e = t /\ e_key e = k
                  /\ Forall (fun e' => e_udpid e' <> u) l1.
Proof. exact find_token_first. Qed.
Print Assumptions C19_token_is_first_match.

(* ... hence never those of an entry registered for another id ... *)
Theorem C19_token_never_another_entrys : forall u l t k, find_token u l = Some (t, k) ->
  exists e, In e l /\ e_udpid e = u /\ e_token e = t /\ e_key e = k.
Proof. exact find_token_in. Qed.
Print Assumptions C19_token_never_another_entrys.

(* ... and there is no result exactly when no entry matches *)
Theorem C19_token_absent_iff : forall u l, find_token u l = None <-> Forall (fun e => e_udpid e <> u) l.
Proof. exact find_token_none. Qed.
Print Assumptions C19_token_absent_iff.

(* the whole get_token call, for ANY token list answered after fewer timeouts than the budget: the first match, or a
   CloudError when there is none *)
Theorem C19_get_token_returns_first_match : forall dev stamp_of c n l s log u, (n < CLOUD_RETRIES)%nat ->
  fst (get_token _ script_srv dev stamp_of c (repeat OTimeout n ++ OResp (mkResp 0 (RTokens l)) :: s, log) u)
  = match find_token u l with Some tk => Ok tk | None => Err ECloud end.
Proof. exact get_token_script. Qed.
Print Assumptions C19_get_token_returns_first_match.

(* ---- retries and error mapping --------------------------------------------------------------------------------- *)
(* whatever the server does: at most `retries` attempts, each posting the same request *)
Theorem C19_attempts_bounded : forall SV (srv : SV -> request -> SV * outcome) r w rq res w',
  post_request SV srv r w rq = (res, w') -> exists k, (k <= r)%nat /\ snd w' = snd w ++ repeat rq k.
Proof. exact post_request_attempts. Qed.
Print Assumptions C19_attempts_bounded.

(* whatever the server does: a failing request fails with a CloudError (ApiError is a subclass) *)
Theorem C19_failures_are_cloud_errors : forall SV (srv : SV -> request -> SV * outcome) r w rq e w',
  post_request SV srv r w rq = (Err e, w') -> subclass e ECloud = true.
Proof. exact post_request_error_cloud. Qed.
Print Assumptions C19_failures_are_cloud_errors.

(* every attempt times out: CloudError after exactly `retries` attempts *)
Theorem C19_all_timeouts : forall r s log rq, (1 <= r)%nat -> Forall (eq OTimeout) (firstn r s) ->
  post_request _ script_srv r (s, log) rq = (Err ECloud, (skipn r s, log ++ repeat rq r)).
Proof. exact post_all_timeouts. Qed.
Print Assumptions C19_all_timeouts.

(* fewer timeouts than the budget: the first other outcome decides (response -> parsed, HTTP error -> CloudError),
   after exactly that many attempts *)
Theorem C19_first_non_timeout_decides : forall r n o s log rq, (n < r)%nat -> o <> OTimeout ->
  post_request _ script_srv r (repeat OTimeout n ++ o :: s, log) rq
  = (match o with OResp resp => (do x <- parse_response resp; Ok (Some x)) | _ => Err ECloud end,
     (s, log ++ repeat rq (S n))).
Proof. exact post_first_non_timeout. Qed.
Print Assumptions C19_first_non_timeout_decides.

(* an API error code is an ApiError, which is a CloudError *)
Theorem C19_api_error_code : forall code x, code <> 0%Z ->
  parse_response (mkResp code x) = Err EApi /\ subclass EApi ECloud = true.
Proof. intros code x H. split; [apply parse_api_error; exact H|reflexivity]. Qed.
Print Assumptions C19_api_error_code.

(* against the conforming cloud behind ANY fault script, a failing login / token request fails with a CloudError *)
Theorem C19_flow_errors_are_cloud_errors :
  forall (shuffle : list field -> list field), (forall l, Permutation l (shuffle l)) ->
  forall cfg dev stamp_of c faults st log,
  same_account cfg c -> c_login_id c = None -> c_has_session c = false ->
  (forall e c' w', login _ (sim_srv shuffle cfg) dev stamp_of false c ((faults, st), log) = (Err e, c', w') ->
                   subclass e ECloud = true) /\
  (forall u e w', c_session_id c = cf_session_id cfg -> rs_open st = true ->
                  get_token _ (sim_srv shuffle cfg) dev stamp_of c ((faults, st), log) u = (Err e, w') ->
                  subclass e ECloud = true).
Proof. exact flow_errors_are_cloud_errors. Qed.
Print Assumptions C19_flow_errors_are_cloud_errors.

(* ---- either byte order ----------------------------------------------------------------------------------------
   A V3 device with ANY id below 2^48 that accepts exactly the credentials `good`, registered at the conforming cloud
   for the udpid of its id bytes in little OR big endian order: a fresh Discover ends with the device authenticated and
   holding exactly `good`, and every request verified - stated per way the cloud answers the id nobody registered. *)
Definition authenticated_with (shuffle : list field -> list field) cfg dev stamp_of region account password id good
    (d0 : option (str * str)) st0 log : Prop :=
  exists dc w',
    authenticate_device _ (sim_srv shuffle cfg) dev stamp_of _ (exact_device good) None region account password id d0
                        (([], st0), log)
    = (Ok true, Some dc, Some good, w') /\ rs_rejected (w_ref w') = rs_rejected st0.

(* the cloud makes up credentials for unknown ids (these differ from the device's) *)
Theorem C19_either_endian_bogus_credentials :
  forall shuffle, (forall l, Permutation l (shuffle l)) ->
  forall cfg dev stamp_of good id region account password c0 d0 st0 log t k,
  id < 2 ^ 48 -> In good (ref_expected_credentials cfg id) ->
  cf_unknown cfg = UBogus t k -> (t, k) <> good ->
  cloud_new region account password = Ok c0 -> same_account cfg c0 ->
  authenticated_with shuffle cfg dev stamp_of region account password id good d0 st0 log.
Proof.
  intros sh Hsh cfg dev st good id region account password c0 d0 st0 log t k Hid Hin Hu Hne Hnew Hsame.
  eapply (either_endian sh Hsh cfg dev st good id Hid Hin); try eassumption.
  unfold unknown_ok. rewrite Hu. exact Hne.
Qed.
Print Assumptions C19_either_endian_bogus_credentials.

(* the cloud answers an unknown id with the token list, which then has no matching entry *)
Theorem C19_either_endian_no_matching_entry :
  forall shuffle, (forall l, Permutation l (shuffle l)) ->
  forall cfg dev stamp_of good id region account password c0 d0 st0 log,
  id < 2 ^ 48 -> In good (ref_expected_credentials cfg id) ->
  cf_unknown cfg = UNoEntry ->
  cloud_new region account password = Ok c0 -> same_account cfg c0 ->
  authenticated_with shuffle cfg dev stamp_of region account password id good d0 st0 log.
Proof.
  intros sh Hsh cfg dev st good id region account password c0 d0 st0 log Hid Hin Hu Hnew Hsame.
  eapply (either_endian sh Hsh cfg dev st good id Hid Hin); try eassumption.
  unfold unknown_ok. rewrite Hu. exact I.
Qed.
Print Assumptions C19_either_endian_no_matching_entry.

(* the cloud answers an unknown id with an API error *)
Theorem C19_either_endian_api_error :
  forall shuffle, (forall l, Permutation l (shuffle l)) ->
  forall cfg dev stamp_of good id region account password c0 d0 st0 log code,
  id < 2 ^ 48 -> In good (ref_expected_credentials cfg id) ->
  cf_unknown cfg = UApiError code ->
  cloud_new region account password = Ok c0 -> same_account cfg c0 ->
  authenticated_with shuffle cfg dev stamp_of region account password id good d0 st0 log.
Proof.
  intros sh Hsh cfg dev st good id region account password c0 d0 st0 log code Hid Hin Hu Hnew Hsame.
  eapply (either_endian sh Hsh cfg dev st good id Hid Hin); try eassumption.
  unfold unknown_ok. rewrite Hu. exact I.
Qed.
Print Assumptions C19_either_endian_api_error.

(* ---- the hypotheses are satisfiable: concrete runs ------------------------------------------------------------ *)
Definition x_acct : str := [97; 64; 98].    (* "a@b" *)
Definition x_pw : str := [112; 119; 49].        (* "pw1" *)
Definition x_tok : str := [97; 97; 49; 49].      (* "aa11" *)
Definition x_key : str := [98; 98; 50; 50].      (* "bb22" *)
Definition x_dev : str := [48; 48; 102; 102].      (* "00ff" *)
Definition x_stamp (n : nat) : str := [48 + N.of_nat n].
(* the device 123456 is registered under its BIG endian udpid only; near-miss entries around it *)
Definition x_cfg (p : unknown_policy) : cloud_cfg :=
  let u := ref_udpid_hex true 123456 in
  mkCfg x_acct x_pw [76; 49] [83; 49]
        [mkReg (u ++ [48]) x_key x_tok; mkReg u x_tok x_key; mkReg (firstn 31 u) x_key x_key] p.

(* a cloud object is cached for the rest of a discovery session only once its login has succeeded (so no later request of
   the session can go out without the session id); a failed first login leaves nothing cached - against ANY server *)
Theorem C19_cloud_cached_only_after_login : forall SV (srv : SV -> request -> SV * outcome) dev stamp_of region account password w r dc' w',
  get_cloud SV srv dev stamp_of None region account password w = (r, dc', w') ->
  match r with Ok c => dc' = Some c /\ c_has_session c = true | Err _ => dc' = None end.
Proof. exact get_cloud_cached_only_after_login. Qed.
Print Assumptions C19_cloud_cached_only_after_login.

Example C19_nonvacuous_signature :
  let d := [(K_udpid, x_tok); (K_sessionId, []); (K_password, x_pw)] in
  beqb (sign EP_LOGIN d) (sign EP_LOGIN (rev d)) && ref_signature_ok EP_LOGIN (rev (dict_set d K_sign (sign EP_LOGIN d)))
  && negb (ref_signature_ok EP_LOGIN_ID (dict_set d K_sign (sign EP_LOGIN d))) = true.
Proof. vm_compute. reflexivity. Qed.

Example C19_nonvacuous_token_match :
  let e u t := mkEntry u t t in
  (find_token [1; 2] [e [1] [7]; e [1; 2; 3] [8]; e [1; 2] [9]; e [1; 2] [10]], find_token [1; 2] [e [1] [7]; e [2; 1] [8]])
  = (Some ([9], [9]), None).
Proof. vm_compute. reflexivity. Qed.

Example C19_nonvacuous_retry :
  let ok := OResp (mkResp 0 (RLoginId [1])) in
  (fst (post_request _ script_srv 3 ([OTimeout; OTimeout; ok], []) ([], [])),
   fst (post_request _ script_srv 3 ([OTimeout; OTimeout; OTimeout; ok], []) ([], [])),
   fst (post_request _ script_srv 3 ([OTimeout; OHttpErr; ok], []) ([], [])),
   fst (post_request _ script_srv 3 ([OResp (mkResp 3101 ROther); ok], []) ([], [])),
   length (snd (snd (post_request _ script_srv 3 ([OTimeout; OTimeout; OTimeout; ok], []) ([], [])))))
  = (Ok (Some (RLoginId [1])), Err ECloud, Err ECloud, Err EApi, 3%nat).
Proof. vm_compute. reflexivity. Qed.

(* faults in the flow (a lost reply, an API error on the first token request): every request verified, the device
   authenticated through the big endian id although the cloud has no entry for the little endian one *)
Example C19_nonvacuous_flow_no_entry :
  match authenticate_device _ (sim_srv (@rev field) (x_cfg UNoEntry)) x_dev x_stamp _ (exact_device (x_tok, x_key)) None
          [] x_acct x_pw 123456 None (([FTimeout; FNone; FNone; FNone], ref_init), []) with
  | (Ok true, Some _, Some tk, w) => creds_eqb tk (x_tok, x_key) && Nat.eqb (rs_rejected (w_ref w)) 0
                                     && Nat.eqb (length (snd w)) 5
  | _ => false
  end = true.
Proof. vm_compute. reflexivity. Qed.

Example C19_nonvacuous_either_endian_hypotheses :
  (ref_expected_credentials (x_cfg UNoEntry) 123456, N.ltb 123456 (2 ^ 48),
   match cloud_new [] x_acct x_pw with Ok c => beqb (c_account c) x_acct | Err _ => false end)
  = ([(x_tok, x_key)], true, true).
Proof. vm_compute. reflexivity. Qed.

Example C19_nonvacuous_flow_api_error_and_bogus :
  let run p := match authenticate_device _ (sim_srv (fun l => l) (x_cfg p)) x_dev x_stamp _ (exact_device (x_tok, x_key)) None
                       [] x_acct x_pw 123456 None (([], ref_init), []) with
               | (Ok true, Some _, Some tk, w) => creds_eqb tk (x_tok, x_key) && Nat.eqb (rs_rejected (w_ref w)) 0
               | _ => false
               end in
  run (UApiError 3004) && run (UBogus x_key x_tok) = true.
Proof. vm_compute. reflexivity. Qed.
