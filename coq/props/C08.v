(* C08 - retry, timeout and recovery contract of an exchange. Statements only. *)
From MS Require Import lib.Base gen.GenLan model.Session proofs.SessionProofs proofs.SessionHoare proofs.SessionLive proofs.SessionDrain proofs.SessionCredsFrame.
Local Open Scope N_scope.

(* at most `retries` transmissions of the request - in every state, for every environment *)
Theorem C08_tx_upper : forall f r w, exists evs,
  w_log (snd (lan_send f r w)) = w_log w ++ evs /\ (ndata evs <= r)%nat.
Proof. exact lan_send_tx_upper. Qed.
Print Assumptions C08_tx_upper.

(* at least one transmission whenever the retry loop (budget >= 1) returns responses *)
Theorem C08_tx_lower : forall r f acc w l w', send_loop (S r) f acc w = (Ok l, w') ->
  exists evs, w_log w' = w_log w ++ evs /\ (1 <= ndata evs)%nat.
Proof. exact send_loop_tx_lower. Qed.
Print Assumptions C08_tx_lower.

(* exhausting the retries (or a cancelled read) surfaces as a timeout and the connection is dropped *)
Theorem C08_exhaustion : forall r f acc,
  hoare (fun _ => True) (send_loop r f acc) (fun _ _ => True) (fun e w => e = ETimeout -> l_proto (w_lan w) = None).
Proof. exact send_loop_timeout_disconnects. Qed.
Print Assumptions C08_exhaustion.

(* device-level calls turn every transport failure into 'no response': Device._send_command always returns a list *)
Theorem C08_device_level : forall f w, exists l, fst (dev_send_command f w) = Ok l.
Proof. exact dev_send_command_total. Qed.
Print Assumptions C08_device_level.

(* recovery: from a dropped connection the next exchange with a promptly answering device succeeds on its own -
   V2: reconnect; V3: reconnect, re-authenticate with the cached credentials, then the data packet under the new key *)
Theorem C08_recovery_v2 : forall w f r x d cs rs,
  l_proto (w_lan w) = None -> l_v3 (w_lan w) = false ->
  w_conns w = ConnOk :: cs -> w_replies w = [(d, RFrame x)] :: rs -> d < READ_TIMEOUT ->
  fst (lan_send f (S r) w) = Ok [x].
Proof. exact recovery_v2. Qed.
Theorem C08_recovery_v3 : forall w f r x d1 d2 cs hs rs,
  l_proto (w_lan w) = None -> l_v3 (w_lan w) = true -> l_creds (w_lan w) = Some true ->
  l_cexp (w_lan w) = None -> l_maxlife (w_lan w) = None ->
  w_conns w = ConnOk :: cs -> w_hsr w = [(d1, RHsOk)] :: hs -> w_replies w = [(d2, RFrame x)] :: rs ->
  d1 < READ_TIMEOUT -> d2 < READ_TIMEOUT ->
  fst (lan_send f (S r) w) = Ok [x]
  /\ exists cid kid p1 p2, w_log (snd (lan_send f (S r) w))
       = w_log w ++ [EvConnect cid true; EvHs cid p1 true; EvAuthOk cid kid; EvData cid p2 kid f].
Proof. exact recovery_v3. Qed.
Print Assumptions C08_recovery_v2.
Print Assumptions C08_recovery_v3.

(* the non-blocking reads LAN.send performs before writing the request and after the response never raise, whatever waits in
   the receive queue (late handshake replies, error packets, data under an old key): such packets are skipped, so on a live
   connection nothing can keep the request from being transmitted (fix F10) *)
Theorem C08_sporadic_reads_never_raise : forall v fuel acc, keeps (hc v) (read_available fuel acc) (fun _ => False).
Proof. exact read_available_never_raises. Qed.
Print Assumptions C08_sporadic_reads_never_raise.

(* ... and the drain is complete: with the fuel LAN.send gives it (queue length + 1) it returns every valid queued data packet in
   order and leaves the queue EMPTY - however many invalid packets were waiting, none survives to meet the blocking read of the
   exchange (a drain that stopped at the first invalid packet would fail the next exchange on a healthy connection) *)
Theorem C08_drain_empties_queue : forall fuel w c acc, l_proto (w_lan w) = Some c -> (length (c_q c) < fuel)%nat ->
  read_available fuel acc w = (Ok (acc ++ kept c (c_q c)), match c_q c with [] => w | _ => wsetq [] w end).
Proof. exact drain_empties_queue. Qed.
Print Assumptions C08_drain_empties_queue.

(* recovery needs the credentials: an exchange - whatever happens in it, including an automatic (re-)handshake that fails on a
   transient fault - leaves the stored token/key exactly as they were, so the next exchange can authenticate again *)
Theorem C08_exchange_keeps_credentials : forall f r w, l_creds (w_lan (snd (lan_send f r w))) = l_creds (w_lan w).
Proof. exact exchange_keeps_credentials. Qed.
Theorem C08_device_exchange_keeps_credentials : forall f w, l_creds (w_lan (snd (dev_send_command f w))) = l_creds (w_lan w).
Proof. exact device_exchange_keeps_credentials. Qed.
Print Assumptions C08_exchange_keeps_credentials.
Print Assumptions C08_device_exchange_keeps_credentials.

(* sentence 1 of C08 on an established session: on a live connection (V3: holding an unexpired session key) LAN.send with a
   budget of at least one transmits the request AT LEAST ONCE - for every content of the receive queue, every environment
   script and whatever happens afterwards *)
Theorem C08_live_connection_transmits : forall f r w,
  alive_b w = true ->
  (forall c, l_proto (w_lan w) = Some c -> c_v3 c = true ->
     match c_key c, c_lexp c with Some _, Some e => (e <? w_now w) = false | _, _ => False end) ->
  exists evs, w_log (snd (lan_send f (S r) w)) = w_log w ++ evs /\ (1 <= ndata evs)%nat.
Proof. exact live_connection_transmits. Qed.
Print Assumptions C08_live_connection_transmits.

(* the F10 history in the model: two handshake replies arrive after their read timeouts and wait in the queue; both following
   exchanges with the promptly answering device succeed *)
Example C08_late_handshake_replies :
  fst (run_ops [OAuth (Some true) 3; OTick 43201000; ODevSend 82; OTick 7001; ODevSend 148; ODevSend 83]
               (world_init [ConnOk; ConnOk] [[(0, RHsOk)]; [(4501, RHsOk)]; [(2001, RHsOk)]; [(0, RHsOk)]]
                           [[(0, RFrame 62)]; [(0, RFrame 75)]; [(0, RFrame 48)]; [(0, RFrame 49)]]))
  = [OutUnit; OutUnit; OutFrames [62]; OutUnit; OutFrames [75]; OutFrames [48]].
Proof. vm_compute. reflexivity. Qed.

Example C08_nonvacuous :
  fst (run_ops [OSend 5 3; ODevSend 6; ODevSend 7]
               (world_init [ConnOk; ConnRefused; ConnOk] [] [[]; []; []; [(10, RFrame 9)]]))
  = [OutErr ETimeout; OutFrames []; OutFrames [9]].
Proof. vm_compute. reflexivity. Qed.
