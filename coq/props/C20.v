(* C20 - `msmart-ng control` applies the documented meaning of each setting=value pair, leaves unspecified settings as the
   device reported them and rejects unknown / read-only / ill-typed settings with a non-zero exit before anything is sent.
   Statements only. [L] is ast.literal_eval: ANY evaluator that agrees with lib/PyLit.lit on lit's grammar. *)
From MS Require Import lib.Base lib.PyLit gen.GenConst gen.GenCmd gen.GenDev gen.GenCli model.Frame model.Command
  model.Response model.Device model.Cli spec.RefAC spec.RefCli proofs.ControlProofs proofs.CliProofs.

Definition extends_lit (L : bytes -> lit_class) : Prop := forall s c, lit s = Some c -> L s = c.

(* Enumerated settings: for every enumeration, every member name (aliases included) and EVERY letter-case spelling of it,
   the conversion yields that member. *)
Theorem C20_enum_by_name : forall L, extends_lit L -> forall e NAME v s,
  e < N.of_nat (length CLI_enum_names) -> In (NAME, v) (enum_names e) -> upper s = NAME ->
  convert_value L e s = COk (TEnum (Z.of_N v)).
Proof. exact enum_by_name. Qed.
Print Assumptions C20_enum_by_name.

(* ... and every member value, however the integer is written within lit's grammar. *)
Theorem C20_enum_by_value : forall L, extends_lit L -> forall e s z,
  e <? 100 = true -> lit s = Some (LInt z) -> In z (map (fun nv => Z.of_N (snd nv)) (enum_names e)) ->
  convert_value L e s = COk (TEnum z).
Proof. exact enum_by_value. Qed.
Print Assumptions C20_enum_by_value.

(* Any integer is accepted raw for the fan speed; for every other enumeration a non-member integer is refused. *)
Theorem C20_fan_raw_int : forall L, extends_lit L -> forall s z,
  lit s = Some (LInt z) -> convert_value L CLI_enum_FanSpeed s = COk (TEnum z).
Proof. exact fan_raw_int. Qed.
Print Assumptions C20_fan_raw_int.

Theorem C20_enum_other_int_refused : forall L, extends_lit L -> forall e s z,
  e <? 100 = true -> e <> CLI_enum_FanSpeed -> lit s = Some (LInt z) -> is_member e z = false ->
  convert_value L e s = CStop (SExit 1).
Proof. exact enum_bad_int. Qed.
Print Assumptions C20_enum_other_int_refused.

(* Booleans: True / False in any letter case (capitalize only looks at the letters), 1 / 0. *)
Theorem C20_bool : forall L, extends_lit L ->
  (forall s, lower s = [116; 114; 117; 101] -> convert_value L KIND_BOOL s = COk (TBool true)) /\
  (forall s, lower s = [102; 97; 108; 115; 101] -> convert_value L KIND_BOOL s = COk (TBool false)) /\
  convert_value L KIND_BOOL [49] = COk (TBool true) /\ convert_value L KIND_BOOL [48] = COk (TBool false).
Proof.
  intros L HL. split; [exact (bool_true L HL)|]. split; [exact (bool_false L HL)|]. exact (bool_digits L HL).
Qed.
Print Assumptions C20_bool.

(* Numbers: an int or a float, for the float setting and for the int setting (a float is truncated toward zero). *)
Theorem C20_number : forall L, extends_lit L -> forall s,
  (forall z, lit s = Some (LInt z) ->
     convert_value L KIND_FLOAT s = COk (TFloat z 1) /\ convert_value L KIND_INT s = COk (TInt z)) /\
  (forall n d, lit s = Some (LFloat n d) ->
     convert_value L KIND_FLOAT s = COk (TFloat n d) /\ convert_value L KIND_INT s = COk (TInt (Z.quot n (Zpos d)))).
Proof. intros L HL s. split; [exact (number_int L HL s)|exact (number_float L HL s)]. Qed.
Print Assumptions C20_number.

(* Conformance with the documentation: every setting=value pair that spec/RefCli.v documents is accepted by the loop
   body and converted to the documented value. *)
Theorem C20_documented_accepted : forall L, extends_lit L -> forall name raw f v,
  documented name raw = Some (f, v) ->
  exists k tv, lookup name doc_settings = Some (f, k) /\ parse_nv L name raw = COk (name, tv) /\ agree k tv v.
Proof. exact documented_accepted. Qed.
Print Assumptions C20_documented_accepted.

(* Rejected before anything is sent: if ANY word of a command line of any length is rejected, the exit status is 1 and
   the world is untouched (no command sent, peer not contacted, no message id used) - for every evaluator L. *)
Theorem C20_reject_before_io : forall P (peer : P -> bytes -> P * list bytes) L caps ss (w : world P),
  (exists x s', In x ss /\ parse_setting L x = CStop s') ->
  exists s, control peer L caps ss w = (w, s) /\ exit_status s = 1%Z.
Proof. exact reject_before_io. Qed.
Print Assumptions C20_reject_before_io.

(* What is rejected: unknown names, read-only properties, words without exactly one '=' ... *)
Theorem C20_invalid_names_rejected : forall L,
  (forall name value, find_setting name = None -> parse_nv L name value = CStop (SExit 1)) /\
  (forall name value kind, find_setting name = Some (kind, false) -> name <> sn_display_on ->
     parse_nv L name value = CStop (SExit 1)) /\
  (forall x, Cli.count_eq x <> 1%nat -> parse_setting L x = CStop (SRaise EValue)).
Proof.
  intros L. split; [exact (unknown_rejected L)|]. split; [exact (readonly_rejected L)|exact (malformed_rejected L)].
Qed.
Print Assumptions C20_invalid_names_rejected.

(* ... and ill-typed values: for boolean and number settings whatever is not a bool / int / float literal; for
   enumerated settings a bare word that is no member name, None, lists and the like, and unparsable text. *)
Theorem C20_ill_typed_rejected : forall L,
  (forall k x, 100 <= k -> k <> KIND_BOOL -> is_number (L x) = false -> exists s, convert_value L k x = CStop s) /\
  (forall x, is_number (L (capitalize x)) = false -> exists s, convert_value L KIND_BOOL x = CStop s) /\
  (forall e x, e <? 100 = true -> L x = LRaise EValue -> assoc (upper x) (enum_names e) = None ->
     convert_value L e x = CStop (SExit 1)) /\
  (forall e x, e <? 100 = true ->
     match L x with LNone | LObj _ => True | LRaise err => subclass err EValue = false | _ => False end ->
     exists s, convert_value L e x = CStop s).
Proof.
  intros L. split; [exact (ill_typed_number_rejected L)|]. split; [exact (ill_typed_bool_rejected L)|].
  split; [exact (enum_bad_word_rejected L)|exact (enum_ill_typed_rejected L)].
Qed.
Print Assumptions C20_ill_typed_rejected.

(* Unspecified settings are kept: after the refresh the attributes are overridden by exactly the given settings; the
   set-state body apply() emits (C10) decodes under the vendor layout to the refreshed state with only the documented
   overrides; and that command is the first thing apply() sends. *)
Theorem C20_unspecified_kept : forall P (peer : P -> bytes -> P * list bytes) props specs (w w1 : world P),
  refresh peer w = (w1, None) -> d_online (w_dev w1) = true ->
  dict_pop props sn_display_on = (None, props) -> props <> [] ->
  Forall2 conforms props specs -> valid_dev (set_all props (w_dev w1)) ->
  run_props peer false props w =
    (fst (apply_op peer (upd_dev w1 (set_all props))), stop_of (snd (apply_op peer (upd_dev w1 (set_all props)))))
  /\ exists b, set_state_body (apply_ctrl (set_all props (w_dev w1))) = Ok b
               /\ ref_decode_control b = Some (override_all (requested (w_dev w1)) specs).
Proof. exact unspecified_kept. Qed.
Print Assumptions C20_unspecified_kept.

Theorem C20_apply_first_command : forall P (peer : P -> bytes -> P * list bytes) (w : world P) f n',
  emit (w_counter w) (SetState (apply_ctrl (w_dev w))) = Ok (f, n') ->
  exists l, w_sent (fst (apply_op peer w)) = w_sent w ++ SetState (apply_ctrl (w_dev w)) :: l.
Proof. exact apply_first_command. Qed.
Print Assumptions C20_apply_first_command.

(* Each setattr changes exactly the documented field of what will be requested. *)
Theorem C20_override_exact : forall props specs, Forall2 conforms props specs -> forall d,
  requested (set_all props d) = override_all (requested d) specs.
Proof. exact set_all_effect. Qed.
Print Assumptions C20_override_exact.

(* display_on alone: toggled exactly when the requested value differs from the reported one; nothing is applied; only
   queries (get-state, display toggle) are ever sent. *)
Theorem C20_display_only : forall P (peer : P -> bytes -> P * list bytes) b (w w1 : world P),
  refresh peer w = (w1, None) -> d_online (w_dev w1) = true ->
  run_props peer false [(sn_display_on, TBool b)] w =
    if Bool.eqb b (d_display (w_dev w1)) then (w1, SExit 0)
    else (fst (toggle_display peer w1), stop_of (snd (toggle_display peer w1))).
Proof. exact display_only. Qed.
Print Assumptions C20_display_only.

Theorem C20_display_only_no_apply : forall P (peer : P -> bytes -> P * list bytes) b (w : world P),
  sent_ext P is_query w (fst (run_props peer false [(sn_display_on, TBool b)] w)).
Proof. exact display_only_queries. Qed.
Print Assumptions C20_display_only_no_apply.

(* ---------------- non-vacuity ---------------- *)
Definition L0 (s : bytes) : lit_class := match lit s with Some c => c | None => LRaise ESyntax end.
Example C20_nonvacuous_evaluator : extends_lit L0.
Proof. intros s c H. unfold L0. rewrite H. reflexivity. Qed.

(* "cOoL" is a spelling of COOL; "tRuE" capitalizes to "True"; 20.5 reads as 205/10 *)
Example C20_nonvacuous_convert :
  convert_value L0 1 [99; 79; 111; 76] = COk (TEnum 2)
  /\ capitalize [116; 82; 117; 69] = [84; 114; 117; 101]
  /\ lit [50; 48; 46; 53] = Some (LFloat 205 10)
  /\ parse_setting L0 [102; 97; 110; 95; 115; 112; 101; 101; 100; 61; 52; 53] = COk (sn_fan_speed, TEnum 45)
  /\ documented sn_target_temperature [50; 48; 46; 53] = Some (FTarget, VHalf 41).
Proof. vm_compute. repeat split; reflexivity. Qed.

Definition status_frame : bytes :=
  [170; 35; 172; 0; 0; 0; 0; 0; 0; 3; 192; 1; 136; 60; 0; 0; 0; 3; 0; 16; 1; 94; 255; 0; 0; 0; 0; 0; 0; 55; 0; 0; 0; 0; 244; 13].
Definition w0 : world (list (list bytes)) := mkWorld dev_init [[status_frame]; [status_frame]] 0 [].

(* a whole run: operational_mode=cOoL target_temperature=20.5 against a device reporting heat / 24.0 / fan 60 / eco:
   exit 0, a get-state then one set-state whose body decodes to cool / 20.5 with fan 60 and eco kept *)
Example C20_nonvacuous_run :
  let '(w, s) := control script_peer L0 false
      [[111; 112; 101; 114; 97; 116; 105; 111; 110; 97; 108; 95; 109; 111; 100; 101; 61; 99; 79; 111; 76];
       [116; 97; 114; 103; 101; 116; 95; 116; 101; 109; 112; 101; 114; 97; 116; 117; 114; 101; 61; 50; 48; 46; 53]] w0 in
  match s, w_sent w with
  | SExit 0, [GetState; SetState c] =>
    match set_state_body c with
    | Ok b => match ref_decode_control b with
              | Some q => (q_mode q =? 2) && (q_target q =? 41) && (q_fan q =? 60) && q_eco q && q_power q
              | None => false end
    | Err _ => false end
  | _, _ => false
  end = true.
Proof. vm_compute. reflexivity. Qed.

(* a rejected word after a valid one: status 1, world untouched; the hypothesis of C20_reject_before_io holds *)
Example C20_nonvacuous_reject :
  parse_setting L0 [98; 111; 103; 117; 115; 61; 49] = CStop (SExit 1)
  /\ parse_setting L0 [98; 101; 101; 112; 61; 91; 49; 93] = CStop (SExit 1)
  /\ control script_peer L0 false [[112; 111; 119; 101; 114; 95; 115; 116; 97; 116; 101; 61; 49]; [98; 111; 103; 117; 115; 61; 49]] w0
     = (w0, SExit 1).
Proof. vm_compute. repeat split; reflexivity. Qed.

(* display_on=0 against a device whose display is on: a toggle is sent, no set-state *)
Example C20_nonvacuous_display :
  let '(w, s) := control script_peer L0 false [[100; 105; 115; 112; 108; 97; 121; 95; 111; 110; 61; 48]] w0 in
  match s, w_sent w with SExit 0, [GetState; ToggleDisplay false; GetState] => true | _, _ => false end = true
  /\ (let '(w, s) := control script_peer L0 false [[100; 105; 115; 112; 108; 97; 121; 95; 111; 110; 61; 84; 114; 117; 101]] w0 in
      match s, w_sent w with SExit 0, [GetState] => true | _, _ => false end = true).
Proof. vm_compute. split; reflexivity. Qed.

Example C20_nonvacuous_conforms : Forall2 conforms [(sn_eco, TBool true); (sn_fan_speed, TEnum 45)] [(FEco, VB true); (FFan, VN 45)].
Proof.
  constructor; [exists DBool; split; [reflexivity|split; [reflexivity|discriminate]]|].
  constructor; [|constructor].
  eexists. split; [vm_compute; reflexivity|]. split; [cbn; split; [reflexivity|lia]|discriminate].
Qed.
