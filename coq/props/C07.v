(* C07 - V3 session discipline: no data before handshake, right key, bounded counter, expiry. Statements only.
   The theorems quantify over EVERY history of operations (send, explicit authenticate with good / bad / cached
   credentials, device-level wrappers, clock jumps, lifetime changes) of ANY length and over EVERY environment script
   (connect refused / hanging, peer silent, error packets, bad handshake replies, peer close, arbitrary delays). *)
From MS Require Import lib.Base gen.GenLan model.Session proofs.SessionProofs proofs.SessionLife proofs.SessionKeyAge.
Local Open Scope N_scope.

(* the invariant holds in every reachable state *)
Theorem C07_invariant : forall conns hsr replies os, Inv (snd (run_ops os (world_init conns hsr replies))).
Proof. exact reachable_inv. Qed.
Print Assumptions C07_invariant.

(* ... in particular the trace discipline: every packet written on a V3 connection carries the number of packets
   written before it on that connection modulo 4096 (so each counter is its predecessor plus one, wrapping to zero,
   for sessions of any length - the 12-bit mask fits the 2-byte field), and every data packet is encrypted under the key
   of the latest accepted handshake on its own connection *)
Theorem C07_trace_discipline : forall conns hsr replies os,
  wf_log (w_log (snd (run_ops os (world_init conns hsr replies)))).
Proof. intros. apply reachable_inv. Qed.
Print Assumptions C07_trace_discipline.

(* hence nothing but handshake requests is written on a connection before a handshake succeeded on that connection *)
Theorem C07_data_after_handshake : forall log pre c p k f post, wf_log log -> log = pre ++ EvData c p k f :: post ->
  In (EvAuthOk c k) pre /\ p = N.of_nat (nwrites c pre) mod 4096.
Proof. exact data_after_handshake. Qed.
Print Assumptions C07_data_after_handshake.

(* expiry: when an exchange starts on a V3 LAN whose connection is missing, closing or past its configured lifetime,
   or whose authentication is missing or older than 12 h, the first packet it writes (if any) is a handshake request;
   after a connection expiry it is written on a freshly made connection *)
Theorem C07_expiry : forall f r w,
  l_v3 (w_lan w) = true ->
  (alive_b w = false \/ match l_proto (w_lan w) with Some c => conn_unauth (w_now w) c | None => True end) ->
  exists evs, w_log (snd (lan_send f r w)) = w_log w ++ evs /\ hs_first evs.
Proof. exact exchange_starts_with_handshake. Qed.
Print Assumptions C07_expiry.


(* K4 (known finding), as a kernel-checked witness in the session model: the first handshake request (counter 0) is answered
   2.499 s later, i.e. after its 2 s read timeout; the retry (counter 1, written at 2.0 s) accepts that late reply.  The client
   now holds key 1 while the appliance's latest handshake produced key 2: the data packet (under key 1) is answered under key 2,
   which the client rejects with a protocol error; the connection is dropped and the next exchange re-authenticates (key 3).
   Handshake replies are not correlated with handshake requests. *)
Theorem C07_handshake_replies_not_correlated :
  (let '(o, w) := run_ops [OAuth (Some true) 2; OTick 607; OSend 19 3; OSend 20 3]
                    (world_init [ConnOk; ConnOk] [[(2499, RHsOk)]; [(4501, RHsOk)]; [(0, RHsOk)]] [[(0, RFrame 7)]; [(0, RFrame 8)]])
   in (o, w_log w))
  = ([OutUnit; OutUnit; OutErr EProtocol; OutFrames [8]],
     [EvConnect 0 true; EvHs 0 0 true; EvHs 0 1 true; EvAuthOk 0 1; EvData 0 2 1 19; EvClose 0;
      EvConnect 1 true; EvHs 1 0 true; EvAuthOk 1 3; EvData 1 1 3 20]).
Proof. vm_compute. reflexivity. Qed.
Print Assumptions C07_handshake_replies_not_correlated.

(* the configured connection lifetime counts from the moment the connection was made: over ANY history, as long as no new
   connection is made the connection's expiry time does not move - a re-handshake (explicit or forced by the 12 h key expiry),
   exchanges, failures, waiting or changing the configured lifetime never extend the life of the connection that exists *)
Theorem C07_lifetime_counted_from_connect : forall os w,
  (w_ncid w <= w_ncid (snd (run_ops os w)))%nat /\
  (w_ncid (snd (run_ops os w)) = w_ncid w -> l_cexp (w_lan (snd (run_ops os w))) = l_cexp (w_lan w)).
Proof. exact lifetime_counted_from_connect. Qed.
Print Assumptions C07_lifetime_counted_from_connect.

(* ... and a successful connect is what sets it: to the time of the connect plus the lifetime configured then *)
Theorem C07_connect_sets_expiry : forall w w', lan_connect w = (Ok tt, w') ->
  w_ncid w' = S (w_ncid w) /\ w_now w' = w_now w /\
  l_cexp (w_lan w') = match l_maxlife (w_lan w) with Some m => Some (w_now w + m) | None => l_cexp (w_lan w) end.
Proof. exact connect_sets_expiry. Qed.
Print Assumptions C07_connect_sets_expiry.

(* a 10 s lifetime, a second handshake 7 s after the connect, an exchange 13 s after the connect: it goes on a new connection *)
Example C07_rehandshake_does_not_extend_lifetime :
  w_log (snd (run_ops [OSetLife (Some 10000); OAuth (Some true) 3; OTick 6000; OAuth (Some true) 3; OTick 5000; OSend 9 3]
                      (world_init [] [[(0, RHsOk)]; [(0, RHsOk)]; [(0, RHsOk)]] [[(0, RFrame 1)]])))
  = [EvConnect 0 true; EvHs 0 0 true; EvAuthOk 0 1; EvHs 0 1 true; EvAuthOk 0 2; EvClose 0; EvConnect 1 true;
     EvHs 1 0 true; EvAuthOk 1 3; EvData 1 1 3 9].
Proof. vm_compute. reflexivity. Qed.

(* the 12 h life of a session key counts from the handshake that produced it: over ANY history in which no handshake reply is
   accepted (no EvAuthOk), the key expiry of the connection in use either stays what it was or is gone with the connection - verified
   responses, exchanges, failures, waiting, reconnecting never extend it; accepting a reply sets it to that moment + 12 h *)
Theorem C07_key_age_counted_from_handshake : forall os w, exists evs,
  w_log (snd (run_ops os w)) = w_log w ++ evs /\
  (nauth evs = 0%nat -> lexp_of (snd (run_ops os w)) = lexp_of w \/ lexp_of (snd (run_ops os w)) = None).
Proof. exact key_age_counted_from_handshake. Qed.
Print Assumptions C07_key_age_counted_from_handshake.
Theorem C07_accept_sets_key_expiry : forall kid w w', accept_key kid w = (Ok tt, w') -> lexp_of w' = Some (w_now w + AUTH_EXP_MS).
Proof. exact accept_sets_key_expiry. Qed.
Print Assumptions C07_accept_sets_key_expiry.

(* handshake at 0, an exchange 7 h later, another 6 h after that (13 h after the handshake): it starts with a new handshake *)
Example C07_exchanges_do_not_extend_key_life :
  w_log (snd (run_ops [OAuth (Some true) 3; OTick 25200000; OSend 7 3; OTick 21600000; OSend 8 3]
                      (world_init [] [[(0, RHsOk)]; [(0, RHsOk)]] [[(0, RFrame 1)]; [(0, RFrame 2)]])))
  = [EvConnect 0 true; EvHs 0 0 true; EvAuthOk 0 1; EvData 0 1 1 7; EvHs 0 2 true; EvAuthOk 0 2; EvData 0 3 2 8].
Proof. vm_compute. reflexivity. Qed.

Example C07_nonvacuous :
  let w := snd (run_ops [OAuth (Some true) 3; OSend 7 3; OTick 50000000; OSend 8 3]
                        (world_init [] [[(0, RHsOk)]; [(0, RHsOk)]] [[(0, RFrame 1)]; [(0, RFrame 2)]])) in
  w_log w = [EvConnect 0 true; EvHs 0 0 true; EvAuthOk 0 1; EvData 0 1 1 7; EvHs 0 2 true; EvAuthOk 0 2; EvData 0 3 2 8].
Proof. vm_compute. reflexivity. Qed.
