(* C07 - V3 session discipline: no data before handshake, right key, bounded counter, expiry. Statements only.
   The theorems quantify over EVERY history of operations (send, explicit authenticate with good / bad / cached
   credentials, device-level wrappers, clock jumps, lifetime changes) of ANY length and over EVERY environment script
   (connect refused / hanging, peer silent, error packets, bad handshake replies, peer close, arbitrary delays). *)
From MS Require Import lib.Base gen.GenLan model.Session proofs.SessionProofs.
Local Open Scope N_scope.

(* the invariant holds in every reachable state *)
Theorem C07_invariant : forall conns hsr replies os, Inv (snd (run_ops os (world_init conns hsr replies))).
Proof. exact reachable_inv. Qed.
Print Assumptions C07_invariant.

(* ... in particular the trace discipline: every packet written on a V3 connection carries the number of packets
   written before it on that connection modulo 4096 (so each counter is its predecessor plus one, wrapping to zero,
   for sessions of any length - the 12-bit mask fits the 2-byte field), and every data packet is encrypted under the key
   of the latest accepted handshake on its own connection *)
Theorem C07_trace_discipline : forall conns hsr replies os,
  wf_log (w_log (snd (run_ops os (world_init conns hsr replies)))).
Proof. intros. apply reachable_inv. Qed.
Print Assumptions C07_trace_discipline.

(* hence nothing but handshake requests is written on a connection before a handshake succeeded on that connection *)
Theorem C07_data_after_handshake : forall log pre c p k f post, wf_log log -> log = pre ++ EvData c p k f :: post ->
  In (EvAuthOk c k) pre /\ p = N.of_nat (nwrites c pre) mod 4096.
Proof. exact data_after_handshake. Qed.
Print Assumptions C07_data_after_handshake.

(* expiry: when an exchange starts on a V3 LAN whose connection is missing, closing or past its configured lifetime,
   or whose authentication is missing or older than 12 h, the first packet it writes (if any) is a handshake request;
   after a connection expiry it is written on a freshly made connection *)
Theorem C07_expiry : forall f r w,
  l_v3 (w_lan w) = true ->
  (alive_b w = false \/ match l_proto (w_lan w) with Some c => conn_unauth (w_now w) c | None => True end) ->
  exists evs, w_log (snd (lan_send f r w)) = w_log w ++ evs /\ hs_first evs.
Proof. exact exchange_starts_with_handshake. Qed.
Print Assumptions C07_expiry.

Example C07_nonvacuous :
  let w := snd (run_ops [OAuth (Some true) 3; OSend 7 3; OTick 50000000; OSend 8 3]
                        (world_init [] [[(0, RHsOk)]; [(0, RHsOk)]] [[(0, RFrame 1)]; [(0, RFrame 2)]])) in
  w_log w = [EvConnect 0 true; EvHs 0 0 true; EvAuthOk 0 1; EvData 0 1 1 7; EvHs 0 2 true; EvAuthOk 0 2; EvData 0 3 2 8].
Proof. vm_compute. reflexivity. Qed.
