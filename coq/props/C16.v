(* C16 - property-protocol settings: sent once, correctly encoded, read back equal. Statements only. *)
From MS Require Import lib.Base gen.GenCmd gen.GenDev model.Command model.Response model.Device spec.RefProps
  proofs.TotalProofs proofs.PropsProofs proofs.HistoryProofs extract.Run.
Local Open Scope N_scope.

(* every setter records exactly its id - the one the appliance advertised for the breeze modes - and records it once *)
Theorem C16_setters_mark : forall d,
  (forall en, d_upd_props (set_breeze_away d en) = set_add (breeze_id d PropertyId_BREEZE_AWAY) (d_upd_props d))
  /\ (forall en, d_upd_props (set_breeze_mild d en) = set_add PropertyId_BREEZE_CONTROL (d_upd_props d))
  /\ (forall en, d_upd_props (set_breezeless d en) = set_add (breeze_id d PropertyId_BREEZELESS) (d_upd_props d))
  /\ (forall v, d_upd_props (set_hangle d v) = set_add PropertyId_SWING_LR_ANGLE (d_upd_props d))
  /\ (forall v, d_upd_props (set_vangle d v) = set_add PropertyId_SWING_UD_ANGLE (d_upd_props d))
  /\ (forall b, d_upd_props (set_ieco d b) = set_add PropertyId_IECO (d_upd_props d))
  /\ (forall v, d_upd_props (set_rate d v) = set_add PropertyId_RATE_SELECT (d_upd_props d)).
Proof. exact setters_mark. Qed.
Print Assumptions C16_setters_mark.

Theorem C16_change_set_has_no_duplicates : forall x l, NoDup l -> NoDup (set_add x l).
Proof. exact set_add_nodup. Qed.
Print Assumptions C16_change_set_has_no_duplicates.

(* For EVERY device state, peer behaviour and history so far: an apply with no changed setting sends the control command
   only; otherwise it sends the control command and then ONE property write carrying each changed id (once), with the value
   its attribute has at that moment, plus the buzzer - and empties the change set, so the next apply writes nothing. *)
Theorem C16_apply_sends : forall (P : Type) (peer : P -> bytes -> P * list bytes) (w : world P), dev_wf (w_dev w) ->
  exists d2, d_upd_props d2 = d_upd_props (w_dev w) /\
  let w' := fst (apply_op peer w) in
  match d_upd_props (w_dev w) with
  | [] => w_sent w' = w_sent w ++ [SetState (apply_ctrl (w_dev w))]
  | upd => w_sent w' = w_sent w ++ [SetState (apply_ctrl (w_dev w)); SetProps (prop_writes d2 upd)]
           /\ d_upd_props (w_dev w') = []
  end.
Proof. exact apply_sends. Qed.
Print Assumptions C16_apply_sends.

Theorem C16_write_ids_distinct : forall d upd, NoDup upd -> NoDup (map fst (prop_writes d upd)).
Proof. exact write_ids_distinct. Qed.
Print Assumptions C16_write_ids_distinct.

(* a refresh sends queries only and leaves the change set alone (a pending change waits for the next apply) *)
Theorem C16_refresh_writes_nothing : forall (P : Type) (peer : P -> bytes -> P * list bytes) (w : world P),
  (length (d_sup_props (w_dev w)) <= 120)%nat ->
  let w' := fst (refresh peer w) in
  w_sent w' = w_sent w ++ refresh_cmds (w_dev w) /\ existsb is_write (refresh_cmds (w_dev w)) = false
  /\ d_upd_props (w_dev w') = d_upd_props (w_dev w).
Proof. exact refresh_writes_nothing. Qed.
Print Assumptions C16_refresh_writes_nothing.

(* the value bytes are the vendor's encoding of the attribute, under the vendor's id, for every attribute value *)
Theorem C16_encoding : forall d k, props_small d -> In k PROPERTY_MAP_keys ->
  exists s, setting_for d k = Some s /\ vendor_id s = k /\ prop_encode k (property_value d k) = Ok (vendor_value s).
Proof. exact encoding_is_vendor. Qed.
Print Assumptions C16_encoding.

Theorem C16_buzzer_self_clean : forall b,
  prop_encode PropertyId_BUZZER (b2n b) = Ok (vendor_value (SBuzzer b)) /\ vendor_id (SBuzzer b) = PropertyId_BUZZER
  /\ prop_encode PropertyId_SELF_CLEAN 1 = Ok (vendor_value (SSelfClean true)) /\ vendor_id (SSelfClean true) = PropertyId_SELF_CLEAN.
Proof. exact buzzer_and_self_clean_vendor. Qed.
Print Assumptions C16_buzzer_self_clean.

(* the reference appliance parses a write into exactly the records of the command: same ids, in order, encoded values *)
Theorem C16_wire : forall kvs body, cmd_body (SetProps kvs) = Ok body ->
  exists recs, ref_parse_set body = Some recs
    /\ Forall2 (fun kv rc => fst rc = fst kv /\ prop_encode (fst kv) (snd kv) = Ok (snd rc)) kvs recs.
Proof. exact write_parsed_by_reference. Qed.
Print Assumptions C16_wire.

(* at most one breeze mode reads active in EVERY state *)
Theorem C16_one_breeze : forall d, b2n (breeze_away d) + b2n (breeze_mild d) + b2n (breezeless d) <= 1.
Proof. exact one_breeze_mode. Qed.
Print Assumptions C16_one_breeze.

(* the client decodes the reference appliance's response (to a set or a query) into the dictionary 'reported' *)
Theorem C16_response_parsed : forall tag (s : store) ids, store_ok s -> (length ids < 256)%nat ->
  parse_props (response_body tag s ids) = Ok (reported s ids).
Proof. exact response_parsed. Qed.
Print Assumptions C16_response_parsed.

(* read back: for EVERY prior device state and every store of the reference appliance, after a refresh that queried every
   advertised id each advertised setting reads what the reference reading of the store says (both legacy breeze properties
   together included - F6) *)
Theorem C16_readback : forall d (s : store) ids, store_ok s -> (forall k0, lookup s k0 <> None -> In k0 ids) ->
  let d' := update_from_props d (reported s ids) in
  let v := expected_pview s in
  (forall m r, lookup s ID_FA_NO_WIND = Some (m :: r) -> In m BreezeMode_values ->
      breeze_away d' = pv_breeze_away v /\ breeze_mild d' = pv_breeze_mild v /\ breezeless d' = pv_breezeless v)
  /\ (lookup s ID_FA_NO_WIND = None -> lookup s ID_PREVENT_STRAIGHT <> None -> breeze_away d' = pv_breeze_away v)
  /\ (lookup s ID_FA_NO_WIND = None -> lookup s ID_NO_WIND_SENSE <> None -> breezeless d' = pv_breezeless v)
  /\ (forall x, pv_ieco v = Some x -> d_ieco d' = x)
  /\ (forall x, pv_rate v = Some x -> In x RateSelect_values -> d_rate d' = x)
  /\ (forall x, pv_lr v = Some x -> In x SwingAngle_values -> d_hangle d' = x)
  /\ (forall x, pv_ud v = Some x -> In x SwingAngle_values -> d_vangle d' = x)
  /\ (forall x, pv_self_clean v = Some x -> d_self_clean d' = x).
Proof. exact readback. Qed.
Print Assumptions C16_readback.

(* in EVERY state reachable from a fresh device by any history (any peer answering with byte strings) the change set has no
   duplicates and only ids of the property map: so every write of C16_apply_sends carries each changed id exactly once *)
Theorem C16_reachable_change_set : forall (P : Type) (peer : P -> bytes -> P * list bytes),
  (forall p f, Forall wfb (snd (peer p f))) ->
  forall ops (p0 : P) n, args_ok ops ->
  let d := w_dev (fst (do_ops_gen peer (mkWorld dev_init p0 n []) ops)) in
  NoDup (d_upd_props d) /\ incl (d_upd_props d) PROPERTY_MAP_keys /\ dev_wf d.
Proof.
  intros P peer Hb ops p0 n Ha d.
  destruct (history_never_raises P peer Hb ops (mkWorld dev_init p0 n []) hinv_init Ha) as [_ H].
  fold d in H. pose proof (hinv_dev_wf d H) as Hw. destruct H as (_ & _ & Hnd & Hincl & _). exact (conj Hnd (conj Hincl Hw)).
Qed.
Print Assumptions C16_reachable_change_set.

(* non-vacuity: the F6 history on the reference appliance - legacy pair, breeze away written, then queried *)
Example C16_nonvacuous :
  let s0 : store := [(66, [1]); (24, [0]); (26, [0])] in
  let s1 := fst (ref_props_step s0 [176; 2; 66; 0; 1; 2; 26; 0; 1; 0]) in
  let d' := update_from_props (set_breeze_away dev_init true) (reported s1 [66; 24]) in
  (lookup s1 66, breeze_away d', breezeless d', pv_breeze_away (expected_pview s1)) = (Some [2], true, false, true).
Proof. vm_compute. reflexivity. Qed.
